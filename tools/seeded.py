"""Confirm a seeded change produced in a scratch worktree, store it under /verif/seeded/<name>/ and run the property's check against it.

usage: python tools/seeded.py <PROP> <worktree> <name> "<what it needs to manifest>" [extra props to run...]
"""
import json
import os
import shutil
import subprocess
import sys
import time

VERIF = os.path.dirname(os.path.dirname(os.path.abspath(__file__)))
PY = '/venv/bin/python'


def sh(cmd: list[str], cwd: str, env: dict[str, str] | None = None, timeout: int = 1800) -> tuple[int, str]:
	p = subprocess.run(cmd, cwd=cwd, env=env, capture_output=True, text=True, timeout=timeout)
	return p.returncode, p.stdout + p.stderr


def main() -> int:
	prop, wt, name, needs = sys.argv[1:5]
	extra = sys.argv[5:]
	out = os.path.join(VERIF, 'seeded', name)
	os.makedirs(out, exist_ok=True)
	rc, diff = sh(['git', 'diff'], wt)
	if not diff.strip():
		print('no diff in worktree')
		return 2
	with open(os.path.join(out, 'patch.diff'), 'w') as f:
		f.write(diff)
	demo = f'demo_{prop}.py'
	ran: dict[str, object] = {}
	if os.path.exists(os.path.join(wt, demo)):
		shutil.copy(os.path.join(wt, demo), os.path.join(out, demo))
		rc_with, out_with = sh([PY, demo], wt)
		# (git stash is shared by all worktrees of a repository: revert/re-apply the stored patch instead)
		patch = os.path.join(out, 'patch.diff')
		rc_r, msg_r = sh(['git', 'apply', '-R', patch], wt)
		if rc_r != 0:
			print('cannot revert patch:', msg_r)
			return 2
		try:
			rc_without, out_without = sh([PY, demo], wt)
		finally:
			sh(['git', 'apply', patch], wt)
		ran['demo_with_change'] = {'exit': rc_with, 'tail': out_with[-600:]}
		ran['demo_without_change'] = {'exit': rc_without, 'tail': out_without[-300:]}
	rc, tests = sh([PY, '-m', 'pytest', '-q', '-p', 'no:cacheprovider', '--continue-on-collection-errors'], wt)
	ran['test_suite_with_change'] = tests.strip().splitlines()[-1]
	rc_apply, msg = sh(['git', 'apply', '--check', os.path.join(out, 'patch.diff')], '/repo')
	ran['applies_to_repo_head'] = rc_apply == 0
	checks: dict[str, object] = {}
	env = dict(os.environ, VERIF_REPO=wt)
	for p in [prop] + extra:
		t0 = time.time()
		rc, txt = sh([PY, '-m', 'tranpsim.check', p, '--tier', 'quick', '--no-evidence'], VERIF, env)
		lines = [ln for ln in txt.splitlines() if ln.startswith('violation:') or ln.startswith('VIOLATION') or ln.startswith('HARNESS')]
		replay_ok = None
		if rc == 1:
			path = [ln for ln in txt.splitlines() if ln.startswith('VIOLATION ')][0].split('replay=')[1].strip()
			r1, _ = sh([PY, '-m', 'tranpsim.check', p, '--replay', path], VERIF, env)
			r2, _ = sh([PY, '-m', 'tranpsim.check', p, '--replay', path], VERIF)
			replay_ok = {'fails_on_change': r1 == 1, 'passes_on_repo': r2 == 0}
			shutil.copy(path, os.path.join(out, f'replay_{p}.json'))
		checks[p] = {'exit': rc, 'caught': rc == 1, 'seconds': round(time.time() - t0), 'first_lines': [ln[:400] for ln in lines[:3]], 'replay': replay_ok}
		print(p, 'exit', rc, 'caught' if rc == 1 else 'MISSED', f'{time.time() - t0:.0f}s', replay_ok)
		for ln in lines[:2]:
			print('   ', ln[:300])
	meta = {'breaks_property': prop, 'needs_to_manifest': needs, 'produced_by': 'independent sub-agent given only the property text and a scratch worktree', 'confirmed': ran, 'checks_run_against_it': checks,
		'how_run': f'VERIF_REPO=<scratch worktree with patch applied> {PY} -m tranpsim.check <ID> --tier quick (equivalent to git -C /repo apply patch.diff; run; git -C /repo checkout -- .)'}
	with open(os.path.join(out, 'meta.json'), 'w') as f:
		json.dump(meta, f, indent=1)
	print(json.dumps(ran, indent=1)[:1500])
	return 0


if __name__ == '__main__':
	sys.exit(main())
