"""Regression of the harness against every stored seeded change: apply /verif/seeded/<name>/patch.diff to a scratch worktree of /repo,
run the check(s) that are recorded as catching it, report any that no longer does. Worktrees are removed afterwards.

usage: python tools/reseed_all.py [name-substring ...]
"""
import glob
import json
import os
import subprocess
import sys
import time

VERIF = os.path.dirname(os.path.dirname(os.path.abspath(__file__)))
PY = '/venv/bin/python'


def sh(cmd, cwd, env=None, timeout=3600):
	p = subprocess.run(cmd, cwd=cwd, env=env, capture_output=True, text=True, timeout=timeout)
	return p.returncode, p.stdout + p.stderr


def main() -> int:
	sel = sys.argv[1:]
	lost = 0
	total = 0
	for d in sorted(glob.glob(os.path.join(VERIF, 'seeded', '*'))):
		name = os.path.basename(d)
		if sel and not any(s in name for s in sel):
			continue
		meta = json.load(open(os.path.join(d, 'meta.json')))
		props = [p for p, v in meta['checks_run_against_it'].items() if v['caught']]
		wt = f'/tmp/wt/regress-{name[:40]}'
		sh(['git', 'worktree', 'remove', '--force', wt], '/repo')
		rc, out = sh(['git', 'worktree', 'add', '--detach', wt, 'HEAD', '-q'], '/repo')
		try:
			rc, out = sh(['git', 'apply', os.path.join(d, 'patch.diff')], wt)
			if rc != 0:
				print(f'{name}: patch does not apply to /repo HEAD: {out[:200]}', flush=True)
				lost += 1
				continue
			for p in props:
				total += 1
				t0 = time.time()
				rc, out = sh([PY, '-m', 'tranpsim.check', p, '--tier', 'quick', '--no-evidence'], VERIF, dict(os.environ, VERIF_REPO=wt))
				ok = rc == 1
				if not ok:
					lost += 1
				print(f"{name}: {p} {'caught' if ok else 'LOST (exit %d)' % rc} {time.time() - t0:.0f}s", flush=True)
		finally:
			sh(['git', 'worktree', 'remove', '--force', wt], '/repo')
	print(f'seeded regression: {total - lost}/{total} still caught')
	return 1 if lost else 0


if __name__ == '__main__':
	sys.exit(main())
