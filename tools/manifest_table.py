# (property, engine, level category, level text, level note, technique, design ref)
TABLE = [
 ('C05', 'persist-sim', 'exploration',
  'Seeded search over histories (edit/touch/run/clear/lost-file, cache on/off, clock deltas and skew, one injected crash/torn write/ENOSPC/EACCES per faulted process) of the real Runner pipeline in forked simulated processes; every run is compared byte for byte with the same run from an empty cache, and with caching disabled the I/O trace must show no cache access. Includes an enumeration pass (every cache write event x offsets {0,1,half,last,+zeros}) on fixed small graphs. Sampling, not proof: right level because the property quantifies over histories x crash points of real file-system code.',
  'Trusts: the forked child as a stand-in for a fresh tranp process (spot-checked by exec), tmpfs as the file system, the clock premise (distinct contents never share an mtime), sequential histories, library-seeded cold oracle validated against truly cold runs at start-up.',
  'deterministic simulation with fault injection: seeded history + crash-point search, cold-run oracle, I/O trace', 'DESIGN.md §4 C05'),
]

# applicable properties whose check is not registered yet
PENDING = {
 'C04': 'applicable (session-history property); check under construction in this round, not yet registered — see DESIGN.md §4 C04',
 'C06': 'applicable (history property of the runner); check under construction in this round, not yet registered — see DESIGN.md §4 C06',
 'C07': 'applicable (error containment of a long-lived loop under damaged input); check under construction in this round — see DESIGN.md §4 C07',
 'C09': 'applicable (re-entrancy of Procedure under nested/failed runs); check under construction in this round — see DESIGN.md §4 C09',
 'C10': 'applicable (order-independence of node resolution); check under construction in this round — see DESIGN.md §4 C10',
 'C14': 'applicable (export -> restart -> import of the symbol table); check under construction in this round — see DESIGN.md §4 C14',
 'C15': 'applicable (store -> restart -> load of syntax trees, torn writes); check under construction in this round — see DESIGN.md §4 C15',
 'C19': 'applicable (operation histories over aliased containers vs a reference model); check under construction in this round — see DESIGN.md §4 C19',
}
