# (property, engine, level category, level text, level note, technique, design ref)
TABLE = [
 ('C04', 'session-sim', 'exploration',
  'Seeded search over operation orders in one live process (load / transpile / repeated transpile / unload / unload of an imported module / interactive re-submissions incl. erroneous texts / Runner.run over permuted or duplicated target lists; runner- and interactive-flavoured apps; cache disabled, cold, library-warm or warm): every answer is compared byte for byte (or by exception class) with a fresh process that serves only that request; other modules are observed in forked grandchildren before and after an operation; fresh answers are recomputed in exec-fresh interpreters under PYTHONHASHSEED 0, 1 and a seeded value.',
  'Trusts: a forked child of the pristine worker as a fresh process (spot-checked by exec); sources fixed inside a session; the known-finding compensation (cascade unload) re-runs the whole session and must be free of mismatches.',
  'deterministic simulation: seeded operation schedules against one live session, fresh-process oracle, hash-seed re-execution', 'DESIGN.md §4 C04'),
 ('C05', 'persist-sim', 'exploration',
  'Seeded search over histories (edit/touch/run/clear/lost-file, cache on/off, clock deltas and skew, one injected crash/torn write/ENOSPC/EACCES per faulted process) of the real Runner pipeline in forked simulated processes; every run is compared byte for byte with the same run from an empty cache, and with caching disabled the I/O trace must show no cache access. Includes an enumeration pass (every cache write event x offsets {0,1,half,last,+zeros}) on fixed small graphs. Sampling, not proof: right level because the property quantifies over histories x crash points of real file-system code.',
  'Trusts: the forked child as a stand-in for a fresh tranp process (spot-checked by exec), tmpfs as the file system, the clock premise (distinct contents never share an mtime), sequential histories, library-seeded cold oracle validated against truly cold runs at start-up.',
  'deterministic simulation with fault injection: seeded history + crash-point search, cold-run oracle, I/O trace', 'DESIGN.md §4 C05'),
 ('C06', 'persist-sim (runner mode)', 'exploration',
  'Seeded search over histories (edit / run / run -f / delete-output / version upgrade / touch, EACCES x1 absorbed by the Writer retry or x2 aborting the run) and configurations (output_dirs rule forms, output_language, module order); at every run the same disk snapshot is also run forced in another simulated process, and file sets, write log (exactly the outputs whose stored header differs or that are missing), header read-back and output path injectivity are compared; after an aborted run one fault-free run must converge. Sampling over histories, which is what the property quantifies over.',
  'Trusts: forced run from the same snapshot as the meaning of "what a forced run would write"; healthy cache; distinct non-nested output directories; the harness reads headers with its own regex/JSON parse.',
  'deterministic simulation with fault injection: seeded history search, forced-run oracle from the same snapshot, I/O write log', 'DESIGN.md §4 C06'),
 ('C14', 'persist-sim + db-sim', 'exploration',
  'Restart round trip: in seeded edit/run histories every process that restored a symbols file is compared symbol by symbol (type description to full depth, debug name, decl, node, via, completed) with a cache-less fresh process; plus seeded sessions on one live table (export / db- or module-unload / import / duplicate import / import of an older export / short read of the stored file) compared with the table before export, with the order clause checked on every export. Sampling over histories and delivery orders; encoding shapes are those of the corpus.',
  'Trusts: the harness describer (types by fullyname recursively, decl/node as (module, full_path)); corpus = generated pools + library stubs; symbols files stale through a transitive dependency (C05 finding) are removed before the restoring run.',
  'deterministic simulation: store/restart/restore histories and seeded export-unload-import sessions against the pre-export table', 'DESIGN.md §4 C14'),
 ('C15', 'persist-sim', 'exploration',
  'Restart round trip of stored syntax trees inside seeded edit/run/lost-file histories: every tree a process loaded from the cache is compared field by field (names, token values, child order, empty placeholders, spans) and through derived views (full paths, node classes, tokens, error quotations) with a fresh parse in a cache-less process; plus a fault-enumeration pass truncating / zero-filling every stored tree at stride and structural-boundary offsets, which must fail to load. The enumeration pass is reported inside coverage; the claimed category stays exploration.',
  'Trusts: corpus (generated pools, the 188 KB classes stub, typing, collections.abc, enum); harness view through the public Entry interface.',
  'deterministic simulation with fault injection: store/restart/load histories + torn-write enumeration', 'DESIGN.md §4 C15'),
]

# applicable properties whose check is not registered yet
PENDING = {
 'C06': 'applicable (history property of the runner); check under construction in this round, not yet registered — see DESIGN.md §4 C06',
 'C07': 'applicable (error containment of a long-lived loop under damaged input); check under construction in this round — see DESIGN.md §4 C07',
 'C09': 'applicable (re-entrancy of Procedure under nested/failed runs); check under construction in this round — see DESIGN.md §4 C09',
 'C10': 'applicable (order-independence of node resolution); check under construction in this round — see DESIGN.md §4 C10',
 'C14': 'applicable (export -> restart -> import of the symbol table); check under construction in this round — see DESIGN.md §4 C14',
 'C15': 'applicable (store -> restart -> load of syntax trees, torn writes); check under construction in this round — see DESIGN.md §4 C15',
 'C19': 'applicable (operation histories over aliased containers vs a reference model); check under construction in this round — see DESIGN.md §4 C19',
}
