"""Regenerates /verif/MANIFEST.json from the table below (keeps the file valid at all times)."""
import json, os, sys
HERE = os.path.dirname(os.path.dirname(os.path.abspath(__file__)))
BASELINE = "cd /repo && /venv/bin/python -m pytest -ra -q -p no:cacheprovider --timeout=900 --continue-on-collection-errors"

NA = {
 'C01': 'run_cpp(transpile(P), a) == run_python(P, a) is a function of one (program, arguments) pair: no schedule, clock, fault, history or interleaving participates; deciding it means generating programs and compiling them (differential testing / translation validation), which is not deterministic simulation.',
 'C02': 'canon(nodes(s)) == canon(ast.parse(s)) is a pure function of one source text; nothing for a scheduler or fault injector to vary (order effects of node resolution are decided under C10).',
 'C03': 'per-program comparison of inferred and run-time types; inference is deterministic and reads no clock, storage or earlier request (staleness of stored inference results is decided under C05/C14).',
 'C08': 'a metamorphic relation between two inputs of a deterministic function; no state, time, fault or order participates.',
 'C11': 'text -> tree compared with ast.parse: a pure function of the input (and that engine does not run under the pinned 3.12 interpreter).',
 'C12': 'fixed-point and print/parse round-trip obligations on grammar texts are pure functions of the grammar; no state, storage fault or order is involved.',
 'C13': 'tokens(s) is a pure function of the string (the tokenizer context lives inside one call); layout rewrites are input pairs, not schedules.',
 'C16': 'span-vs-text and caret arithmetic are functions of one parsed input; the only history-dependent clause (spans survive the cache) is decided under C15, whose compared view contains every span.',
 'C17': 'exec(e) == eval(e) is a pure function of the expression.',
 'C18': 'algebraic laws of string helper functions; no state, storage, time or order.',
}

CHECKS = {}  # filled by register()

def check(pid, engine, category, text, note, technique, design_ref):
	return {
		'property_id': pid,
		'quick_cmd': f'/venv/bin/python -m tranpsim.check {pid} --tier quick',
		'thorough_cmd': f'/venv/bin/python -m tranpsim.check {pid} --tier thorough',
		'evidence_file': f'/verif/evidence/{pid}.json',
		'replay_cmd_template': f'/venv/bin/python -m tranpsim.check {pid} --replay {{path}}',
		'engine': engine,
		'level_claimed': {'category': category, 'text': text, 'design_ref': design_ref},
		'level_note': note,
		'technique': technique,
	}

sys.path.insert(0, HERE)
from tools.manifest_table import TABLE, PENDING  # noqa: E402

checks = [check(*row) for row in TABLE]
claimed = {c['property_id'] for c in checks}
na = [{'property_id': p, 'reason': r} for p, r in sorted(NA.items())]
for p, r in sorted(PENDING.items()):
	if p not in claimed:
		na.append({'property_id': p, 'reason': r})
engines = {}
for c in checks:
	engines.setdefault(c['engine'], []).append(c['property_id'])
doc = {
 'version': 1,
 'setup_cmd': 'true',
 'hooks': {
  'guard': 'TRANP_VERIF',
  'enable': 'no hook exists in /repo: every seam (builtins.open, os.unlink, os.makedirs, time.sleep, the terminal reader, DI definitions) is reached by monkeypatching in the forked simulated process or through App(definitions); TRANP_VERIF is reserved and unused',
  'baseline_off_cmd': BASELINE,
  'source_commits': [],
  'add_only': True,
 },
 'engines': [{'name': n, 'path': '/verif/tranpsim', 'serves_properties': sorted(ps), 'kind_free_text': 'deterministic simulation with fault injection (seeded schedules over forked simulated tranp processes / one live session / in-process containers)'} for n, ps in sorted(engines.items())],
 'checks': checks,
 'not_applicable': sorted(na, key=lambda x: x['property_id']),
 'notes': 'All checks honour VERIF_SEED / VERIF_TIER / VERIF_REPO, re-exec with PYTHONHASHSEED=0, import rogw from the working tree (nothing to build) and create/remove their scratch projects under /dev/shm (fallback: the system temp dir). Exit 0 = held, 1 = VIOLATION line printed, 2 = harness error. fix: commits in /repo are listed in /verif/known_findings.json as status=fixed.',
}
with open(os.path.join(HERE, 'MANIFEST.json'), 'w') as f:
	json.dump(doc, f, indent=1)
print('checks:', sorted(claimed), 'n/a:', [x['property_id'] for x in doc['not_applicable']])
