#!/bin/bash
# Runs the repository's pinned test suite (guard off: there are no hooks) and prints the pass count.
cd "${1:-/repo}" && /venv/bin/python -m pytest -ra -q -p no:cacheprovider --timeout=900 --continue-on-collection-errors 2>&1 | tail -3
