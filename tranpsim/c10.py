"""C10 — tree addressing is a bijection and node resolution is order-independent (query-sim).

One live Nodes/NodeResolver pair per schedule; the schedule is a seeded sequence of queries and node-level accesses
(which instantiate neighbours) with NodeResolver.clear() at seeded points. Every answer is compared with (a) the raw tree
walked by the harness and (b) the same query multiset issued in canonical order to a fresh index."""
import random
from typing import Any

from tranpsim import pools, tasks
from tranpsim.core import HarnessError, ddmin, digest
from tranpsim.corpus.zoo import ZOO
from tranpsim.framework import Engine
from tranpsim.persist import Project, library_seed
from tranpsim.proc import sim_process

LIB_MODULES = ['typing', 'enum', 'collections.abc', 'rogw.tranp.compatible.libralies.type', 'rogw.tranp.compatible.libralies.classes']
QUERY_KINDS = ['by', 'exists', 'parent', 'ancestor', 'siblings', 'children', 'expand', 'values', 'id', 'source_map', 'n.parent', 'n.scope', 'n.fullyname', 'n.tokens', 'n.namespace', 'n.procedural', 'n.props', 'n._siblings', 'n._children', 'n._under_expand', 'n._at', 'clear', 'by-missing']
GRAMMAR_TAGS = ['file_input', 'class_def', 'class_def_raw', 'function_def', 'function_def_raw', 'block', 'if_stmt', 'if_clause', 'assign', 'anno_assign', 'var', 'name', 'funccall', 'getattr', 'arguments', 'argvalue',
	'number', 'string', 'return_stmt', 'import_stmt', 'dotted_name', 'parameters', 'paramvalue', 'typedparam', 'typed_var', 'list', 'dict', 'key_value', 'sum', 'term', 'comparison', 'for_stmt', 'while_stmt', 'NAME', 'DEC_NUMBER', 'STRING', 'zz', 'foo', 'bar_baz']


# ---------------------------------------------------------------------------------------------
# inside the simulated process


def make_module_di(app: Any, module_path: str, root_entry: Any = None) -> Any:
	"""The per-module container exactly as providers/syntax/entrypoints.py builds it (shared container combined with a fresh dependency container)."""
	from rogw.tranp.cache.cache import CacheProvider
	from rogw.tranp.lang.convertion import as_a
	from rogw.tranp.lang.di import LazyDI
	from rogw.tranp.lang.locator import Invoker, Locator
	from rogw.tranp.module.loader import ModuleDependencyProvider
	from rogw.tranp.module.types import ModulePath
	from rogw.tranp.syntax.ast.entry import Entry
	from rogw.tranp.syntax.ast.parser import SyntaxParser
	from rogw.tranp.syntax.ast.resolver import SymbolMapping
	shared = as_a(LazyDI, app.resolve(Locator))
	shared.resolve(SyntaxParser)
	shared.resolve(CacheProvider)
	shared.resolve(SymbolMapping)
	dep = LazyDI.instantiate(app.resolve(ModuleDependencyProvider)())
	di = shared.combine(dep)
	di.rebind(Locator, lambda: di)
	di.rebind(Invoker, lambda: di.invoke)
	di.bind(ModulePath, lambda: ModulePath(module_path, 'py'))
	if root_entry is not None:
		di.rebind(Entry, lambda: root_entry)
	return di


def raw_walk(root: Any) -> list[tuple[Any, int]]:
	"""The raw tree in document (pre-)order: (entry, index of its parent or -1). No path strings: how entries are *named* is the
	implementation's business; the harness only knows the shape."""
	out: list[tuple[Any, int]] = []

	def rec(entry: Any, parent: int) -> None:
		me = len(out)
		out.append((entry, parent))
		if entry.has_child:
			for c in entry.children:
				rec(c, me)
	rec(root, -1)
	return out


def node_ref(n: Any) -> list[str]:
	return [n.full_path, type(n).__name__]


def answer(fn: Any) -> Any:
	try:
		return fn()
	except RecursionError:
		return '!RecursionError'
	except Exception as e:
		return f'!{type(e).__name__}'


class Driver:
	"""One live index (Nodes + NodeResolver) over one tree."""

	def __init__(self, app: Any, module_path: str, root: Any, paths: list[str]) -> None:
		from rogw.tranp.syntax.ast.query import Query
		from rogw.tranp.syntax.node.resolver import NodeResolver
		self.di = make_module_di(app, module_path, root)
		self.nodes = self.di.resolve(Query)
		self.resolver = self.di.resolve(NodeResolver)
		self.paths = paths
		self.touched: dict[str, str] = {}
		self.last_inst: dict[str, Any] = {}
		self.identity_breaks: list[str] = []

	def touch(self, ref: Any) -> Any:
		if isinstance(ref, list) and len(ref) == 2 and isinstance(ref[0], str) and ref[1] != 'Proxy':
			# ('Proxy' = virtual child made by dirty_child/dirty_proxify: not an entry of the tree, never registered in the resolver)
			self.touched.setdefault(ref[0], ref[1])
			if self.touched[ref[0]] != ref[1]:
				self.identity_breaks.append(f'class of {ref[0]} changed within one index: {self.touched[ref[0]]} -> {ref[1]}')
		return ref

	def touch_all(self, refs: Any) -> Any:
		if isinstance(refs, list):
			for r in refs:
				self.touch(r)
		return refs

	def by(self, p: str) -> Any:
		n = self.nodes.by(p)
		prev = self.last_inst.get(p)
		if prev is not None and prev is not n:
			self.identity_breaks.append(f'by({p}) returned a different instance without clear()')
		self.last_inst[p] = n
		return n

	def run(self, q: dict[str, Any]) -> Any:
		kind = q['q']
		nodes = self.nodes
		p = self.paths[q['p'] % len(self.paths)]
		if kind == 'clear':
			self.resolver.clear()
			self.last_inst.clear()
			return 'cleared'
		if kind == 'by':
			return self.touch(answer(lambda: node_ref(self.by(p))))
		if kind == 'by-missing':
			return answer(lambda: node_ref(nodes.by(p + '.no_such_child')))
		if kind == 'exists':
			return [answer(lambda: nodes.exists(p)), answer(lambda: nodes.exists(p + '.no_such_child'))]
		if kind == 'parent':
			return self.touch(answer(lambda: node_ref(nodes.parent(p))))
		if kind == 'ancestor':
			tag = own_tag(p) if q['tag'] == '@own' else q['tag']
			return self.touch(answer(lambda: node_ref(nodes.ancestor(p, tag))))
		if kind == 'siblings':
			return self.touch_all(answer(lambda: [node_ref(n) for n in nodes.siblings(p)]))
		if kind == 'children':
			return self.touch_all(answer(lambda: [node_ref(n) for n in nodes.children(p)]))
		if kind == 'expand':
			return self.touch_all(answer(lambda: [node_ref(n) for n in nodes.expand(p)]))
		if kind == 'values':
			return answer(lambda: list(nodes.values(p)))
		if kind == 'id':
			return answer(lambda: nodes.id(p))
		if kind == 'source_map':
			return answer(lambda: [list(nodes.source_map(p)['begin']), list(nodes.source_map(p)['end'])])
		# node-level accesses instantiate neighbours
		n = answer(lambda: self.by(p))
		if isinstance(n, str):
			return n
		self.touch(node_ref(n))
		if kind == 'n.parent':
			return self.touch(answer(lambda: node_ref(n.parent)))
		if kind == 'n.scope':
			return answer(lambda: n.scope)
		if kind == 'n.namespace':
			return answer(lambda: n.namespace)
		if kind == 'n.fullyname':
			return answer(lambda: n.fullyname)
		if kind == 'n.tokens':
			return answer(lambda: n.tokens)
		if kind == 'n.procedural':
			return self.touch_all(answer(lambda: [node_ref(x) for x in n.procedural()][:400]))
		if kind == 'n._siblings':
			return self.touch_all(answer(lambda: [node_ref(x) for x in n._siblings()]))
		if kind == 'n._children':
			return self.touch_all(answer(lambda: [node_ref(x) for x in n._children()]))
		if kind == 'n._under_expand':
			return self.touch_all(answer(lambda: [node_ref(x) for x in n._under_expand()]))
		if kind == 'n._at':
			return self.touch(answer(lambda: node_ref(n._at(q['p'] % 3))))
		if kind == 'n.props':
			def props() -> Any:
				out = []
				for key in n.prop_keys():
					v = getattr(n, key)
					out.append([key, [node_ref(x) for x in v] if isinstance(v, list) else node_ref(v)])
				return out
			res = answer(props)
			if isinstance(res, list):
				for key, v in res:
					if v and isinstance(v[0], list):
						self.touch_all([x for x in v if not x[0].endswith('__empty__')])
			return res
		raise ValueError(kind)


def expected_from_raw(q: dict[str, Any], walk: list[tuple[str, Any, str | None]], index: dict[str, int], accepted: set[str]) -> Any:
	"""What the raw tree says the answer must be (None = the harness has no independent expectation)."""
	kind = q['q']
	p = walk[q['p'] % len(walk)][0]
	parent_of = {path: par for path, _, par in walk}
	name_of = {path: e.name for path, e, _ in walk}
	if kind == 'exists':
		return [True, False]
	if kind == 'id':
		return index[p]
	if kind == 'children':
		return [path for path, _, par in walk if par == p]
	if kind == 'siblings':
		par = parent_of[p]
		if par is None:
			return '!NodeNotFound'
		return [path for path, _, pp in walk if pp == par]
	if kind == 'values':
		def under(path: str | None) -> bool:
			while path is not None:
				if path == p:
					return True
				path = parent_of[path]
			return False
		return [e.value for path, e, _ in walk if e.value and under(path)]
	if kind == 'source_map':
		e = walk[index[p]][1]
		return [list(e.source_map['begin']), list(e.source_map['end'])]
	if kind == 'parent':
		cur = parent_of[p]
		while cur is not None:
			if name_of[cur] in accepted:
				return cur
			cur = parent_of[cur]
		return '!NodeNotFound'
	if kind == 'ancestor':
		cur: str | None = p
		while cur is not None:
			if name_of[cur] == (own_tag(p) if q['tag'] == '@own' else q['tag']):
				return cur
			cur = parent_of[cur]
		return '!NodeNotFound'
	if kind == 'by-missing':
		return '!NodeNotFound'
	return None


def own_tag(path: str) -> str:
	"""Tag of the path's own last element (distance 0 from the queried node)."""
	last = path.split('.')[-1]
	return last.split('[')[0]


def resolution_failure(live: Any, ans: Any, exp: Any) -> bool:
	"""The query found the right entries but the node at one of them cannot be instantiated (malformed synthetic trees):
	by(expected path) raises the very same exception. That is no disagreement about the tree."""
	if not (isinstance(ans, str) and ans.startswith('!')) or isinstance(exp, str) and exp.startswith('!'):
		return False
	targets = exp if isinstance(exp, list) else [exp]
	for t in targets:
		if isinstance(t, str) and answer(lambda: node_ref(live.nodes.by(t))) == ans:
			return True
	return False


NODE_KINDS = {'by', 'by-missing', 'parent', 'ancestor', 'siblings', 'children'}


def paths_of(kind: str, ans: Any) -> Any:
	"""Node answers are compared with the raw tree by path."""
	if kind not in NODE_KINDS or isinstance(ans, str):
		return ans
	if isinstance(ans, list) and ans and isinstance(ans[0], list):
		return [a[0] for a in ans]
	if isinstance(ans, list) and len(ans) == 2 and isinstance(ans[0], str):
		return ans[0]
	return ans


def _leaf(name: str, value: str) -> dict[str, Any]:
	return {'name': name, 'value': value}


# hand-made trees: unique (un-indexed) sibling tags where one tag textually extends its predecessor, in both orders, at two depths;
# a parent with 12 same-tag children (two-digit indexes) whose last child has children; empty placeholders between them
EXPLICIT_TREES = [
	{'name': 'file_input', 'children': [
		{'name': 'item', 'children': [_leaf('name', 'a')]},
		{'name': 'item_list', 'children': [_leaf('name', 'b'), _leaf('name', 'c')]},
		{'name': 'arg1', 'children': []},
		{'name': 'arg10', 'children': [_leaf('value', 'd')]},
		{'name': 'block', 'children': [
			{'name': 'list', 'children': []},
			{'name': 'list_comp', 'children': [_leaf('name', 'n'), {'name': 'list', 'children': [_leaf('name', 'm')]}, {'name': 'list_x', 'children': [_leaf('name', 'k')]}]},
			{'name': 'lis', 'children': [_leaf('name', 'z')]},
		]},
		{'name': 'x_y', 'children': [_leaf('name', 'e')]},
		{'name': 'x', 'children': [_leaf('name', 'f')]},
	]},
	{'name': 'file_input', 'children': [
		{'name': 'block', 'children': [_leaf('stmt', f's{i}') if i % 5 else None for i in range(12)] + [{'name': 'stmt', 'children': [_leaf('name', 'last'), None]}]},
		{'name': 'blocks', 'children': [{'name': 'stmt', 'children': [_leaf('name', f'n{i}'), _leaf('name', f'm{i}')]} for i in range(25)]},
	]},
]


def synthetic_tree(spec: dict[str, Any]) -> dict[str, Any]:
	rng = random.Random(spec['seed'])
	tags = spec.get('tags') or GRAMMAR_TAGS

	def make(depth: int) -> Any:
		if depth >= spec.get('depth', 4) or rng.random() < 0.25:
			r = rng.random()
			if r < 0.15:
				return None
			return {'name': rng.choice(tags), 'value': rng.choice(['x', 'y', '1', "'s'", 'self', 'int', ''])}
		n = rng.randint(0, spec.get('fanout', 4))
		pool = rng.sample(tags, min(len(tags), rng.randint(1, 3)))
		return {'name': rng.choice(tags), 'children': [make(depth + 1) if rng.random() < 0.8 else {'name': rng.choice(pool), 'children': [make(depth + 2)]} for _ in range(n)]}
	root = make(0)
	if root is None or 'children' not in root:
		root = {'name': 'file_input', 'children': [root]}
	root['name'] = 'file_input'
	return root


def tree_task(case: dict[str, Any]):
	def task(seams: Any) -> dict[str, Any]:
		from rogw.tranp.syntax.ast.entry import Entry, EntryOfDict
		from rogw.tranp.syntax.ast.finder import ASTFinder
		from rogw.tranp.syntax.ast.resolver import SymbolMapping
		app = tasks.make_app(case.get('modules') or [], force=True, cache_enabled=None)
		tree = case['tree']
		if tree['kind'] == 'module':
			module = tree['module']
			root = make_module_di(app, module).resolve(Entry)
		else:
			module = '__synthetic__'
			root = EntryOfDict(tree['tree'] if tree['kind'] == 'explicit' else synthetic_tree(tree))
		raw = raw_walk(root)
		mapping = app.resolve(SymbolMapping)
		accepted = {tag for tags in mapping.symbols.values() for tag in tags}
		diffs: list[dict[str, Any]] = []
		stats = {'entries': len(raw), 'queries': 0, 'first_decided_through_neighbour': 0, 'clears': 0, 'bigrams': []}

		# -- bijection: one full path per entry, no path twice, document order (judged on shape and identity, not on how paths are spelled)
		finder = ASTFinder()
		fp = finder.full_pathfy(root)
		paths = list(fp.keys())
		bad = None
		if len(fp) != len(raw):
			bad = {'entries_in_tree': len(raw), 'full_paths': len(fp)}
		else:
			for i, (path, entry) in enumerate(fp.items()):
				if entry.source is not raw[i][0].source or entry.name != raw[i][0].name:
					bad = {'position': i, 'path': path, 'entry_at_path': entry.name, 'entry_in_document_order': raw[i][0].name}
					break
		if bad is not None:
			diffs.append({'class': 'full-paths-are-not-a-bijection-in-document-order', 'detail': bad})
			return {'diffs': diffs, 'stats': {**stats, 'bigrams': []}, 'classes': 0}
		walk = [(paths[i], raw[i][0], paths[raw[i][1]] if raw[i][1] >= 0 else None) for i in range(len(raw))]
		index = {p: i for i, p in enumerate(paths)}
		step = max(1, len(walk) // case.get('pluck_budget', 400))
		for path, entry, _ in walk[::step]:
			got = answer(lambda: finder.pluck(root, path))
			if isinstance(got, str) or got.source is not entry.source:
				diffs.append({'class': 'pluck-does-not-return-the-entry', 'detail': {'path': path, 'got': got if isinstance(got, str) else got.name}})
				break

		# -- canonical resolution: fresh index, single by(p) in document order
		canon = Driver(app, module, root, paths)
		canonical: dict[str, str] = {}
		for p in paths:
			a = answer(lambda: type(canon.nodes.by(p)).__name__)
			canonical[p] = a

		for s, queries in enumerate(case['schedules']):
			live = Driver(app, module, root, paths)
			ref = Driver(app, module, root, paths)
			order = sorted(range(len(queries)), key=lambda i: (queries[i]['q'], queries[i]['p'] % len(paths), queries[i].get('tag', ''), i))
			ref_answers: dict[int, Any] = {}
			for i in order:
				if queries[i]['q'] != 'clear':
					ref_answers[i] = ref.run(queries[i])
			prev = ''
			for i, q in enumerate(queries):
				stats['queries'] += 1
				if q['q'] == 'clear':
					stats['clears'] += 1
				stats['bigrams'].append(f"{prev}>{q['q']}")
				prev = q['q']
				before = set(live.touched)
				a = live.run(q)
				if q['q'] != 'by' and len(set(live.touched) - before) > 0:
					stats['first_decided_through_neighbour'] += len(set(live.touched) - before)
				if q['q'] == 'clear':
					continue
				exp = expected_from_raw(q, walk, index, accepted)
				if exp is not None and paths_of(q['q'], a) != exp and not resolution_failure(live, a, exp):
					diffs.append({'class': 'query-disagrees-with-raw-tree', 'detail': {'schedule': s, 'step': i, 'query': q, 'path': paths[q['p'] % len(paths)], 'answer': str(paths_of(q['q'], a))[:300], 'raw_tree': str(exp)[:300]}})
					break
				if a != ref_answers.get(i):
					diffs.append({'class': 'answer-depends-on-query-order', 'detail': {'schedule': s, 'step': i, 'query': q, 'path': paths[q['p'] % len(paths)], 'this_order': str(a)[:300], 'canonical_order': str(ref_answers.get(i))[:300]}})
					break
			for msg in live.identity_breaks[:1]:
				diffs.append({'class': 'instance-or-class-changed-within-one-index', 'detail': {'schedule': s, 'what': msg}})
			for p, cls in live.touched.items():
				if p in canonical and canonical[p] != cls:
					diffs.append({'class': 'node-class-depends-on-query-order', 'detail': {'schedule': s, 'path': p, 'this_order': cls, 'document_order_on_fresh_index': canonical[p]}})
					break
			if diffs:
				break
		stats['bigrams'] = sorted(set(stats['bigrams']))
		return {'diffs': diffs, 'stats': stats, 'classes': len(set(canonical.values()))}
	return task


# ---------------------------------------------------------------------------------------------


def gen_queries(rng: random.Random, n: int, kinds: list[str]) -> list[dict[str, Any]]:
	out: list[dict[str, Any]] = []
	hot = [rng.randrange(10**9) for _ in range(rng.randint(1, 12))]
	for _ in range(n):
		kind = rng.choice(kinds)
		p = rng.choice(hot) if rng.random() < 0.5 else rng.randrange(10**9)
		if rng.random() < 0.3:
			p = max(0, p + rng.randint(-3, 3))  # neighbours in document order
		q: dict[str, Any] = {'q': kind, 'p': p}
		if kind == 'ancestor':
			q['tag'] = rng.choice(['@own', '@own', 'class_def', 'function_def', 'block', 'file_input', 'if_stmt', 'class_def_raw', 'function_def_raw', 'assign', 'zz', 'funccall'])
		out.append(q)
	return out


class C10Runner:
	def __init__(self, case: dict[str, Any]) -> None:
		self.case = case

	def execute(self) -> dict[str, Any]:
		case = self.case
		pool = case.get('pool') or pools.fixed_pool(0)
		proj = Project(pool, tag='c10')
		try:
			for m, v in (case.get('state') or {}).items():
				proj.set_variant(m, v, 10**9)
			for m, src in ZOO.items():
				proj.sc.write(pools.module_relpath(m), src.encode('utf-8'), 1_700_000_500 * 10**9)
			try:
				seed = library_seed()
			except RuntimeError:
				seed = {}  # only an accelerator here: the trees come from the parser, a full run is not needed
			for rel, (content, mtime) in seed.items():
				proj.sc.write(rel, content, mtime)
			rec = sim_process(proj.sc.root, tree_task({**case, 'modules': pool['modules']}), timeout=300)
			if rec['status'] == 'timeout':
				return self.result([{'class': 'queries-do-not-terminate', 'detail': {}, 'known': None, 'sig': 'timeout'}], {}, 1)
			if rec['status'] != 'ok':
				raise HarnessError(f"query process failed: {rec.get('error') or rec}")
			res = rec['result']
			vs = [{'class': d['class'], 'detail': d['detail'], 'known': None, 'sig': d['class']} for d in res['diffs']]
			return self.result(vs, res['stats'], 1, res.get('classes', 0))
		finally:
			proj.destroy()

	def result(self, vs: list[dict[str, Any]], stats: dict[str, Any], processes: int, classes: int = 0) -> dict[str, Any]:
		counters = {
			'probes': {'entries indexed': stats.get('entries', 0), 'queries issued': stats.get('queries', 0), 'paths whose class was first decided through a neighbour access': stats.get('first_decided_through_neighbour', 0), 'NodeResolver.clear() calls': stats.get('clears', 0), 'distinct node classes in canonical pass': classes},
			'ops': {self.case['tree']['kind']: 1},
		}
		tree_key = digest(self.case['tree'])
		return {'violations': vs, 'counters': counters, 'distinct': [f'{tree_key}:{b}' for b in stats.get('bigrams', [])][:400], 'states': stats.get('bigrams', []), 'log': digest([vs, stats.get('queries')]), 'processes': processes, 'sim_time_s': 0.0}


class C10(Engine):
	prop = 'C10'
	rule = ('case = one tree (parse tree of a generated / library module through the real parser, or a seeded synthetic tree with repeated / unique / empty child tags inside and outside the grammar) '
		'x 6 schedules of 50-400 queries (by, exists, parent, ancestor, siblings, children, expand, values, id, source_map, node.parent/scope/namespace/fullyname/tokens/procedural/expandable properties, '
		'NodeResolver.clear()) on one live index; answers are compared with the raw tree walked by the harness and with the same query multiset in canonical order on a fresh index; resolved classes with a '
		'document-order pass on a fresh index. distinct_nontrivial = distinct (tree, query-kind bigram) pairs; states = distinct query-kind bigrams')
	quick_runs = 2600
	thorough_runs = 60000
	quick_budget_s = 90.0
	thorough_budget_s = 1500.0
	components_real = ['ASTFinder', 'EntryPath', 'EntryCache', 'Nodes', 'NodeResolver', 'Resolver', 'symbol_mapping()', 'every node class and its match_feature', 'per-module DI wiring (combine)', 'SyntaxParserOfLark for the corpus trees']
	assumptions = ['entries are proxies: "returns that very entry" is checked on the underlying parser object (entry.source)', 'expected answers for expand and node-level accessors come from the canonical-order run, not from the raw tree']

	def canonical_cases(self) -> list[dict[str, Any]]:
		cases: list[dict[str, Any]] = []
		rng = random.Random(7)
		pool = pools.fixed_pool(0)
		for tree in [{'kind': 'module', 'module': m} for m in pool['modules'] + LIB_MODULES + sorted(ZOO)] + [{'kind': 'synthetic', 'seed': s, 'depth': 4, 'fanout': 4} for s in range(4)] + [{'kind': 'explicit', 'tree': t} for t in EXPLICIT_TREES]:
			scheds = []
			scheds.append([{'q': k, 'p': 0} for k in QUERY_KINDS if k != 'ancestor'] + [{'q': 'ancestor', 'p': 5, 'tag': 'file_input'}, {'q': 'ancestor', 'p': 5, 'tag': '@own'}, {'q': 'ancestor', 'p': 0, 'tag': '@own'}])
			scheds.append([{'q': 'expand', 'p': 1}, {'q': 'children', 'p': 1}, {'q': 'expand', 'p': 1}, {'q': 'n.props', 'p': 1}, {'q': 'clear', 'p': 0}, {'q': 'children', 'p': 1}, {'q': 'by', 'p': 1}, {'q': 'by', 'p': 1}])
			scheds.append(gen_queries(rng, 120, [k for k in QUERY_KINDS]))
			cases.append({'pool': pool, 'tree': tree, 'schedules': scheds, 'pluck_budget': 100000})
		ex = pools.example_pool()
		for m in ex['modules']:
			cases.append({'pool': ex, 'tree': {'kind': 'module', 'module': m}, 'schedules': [gen_queries(rng, 300, QUERY_KINDS), gen_queries(rng, 300, [k for k in QUERY_KINDS if k != 'clear'])], 'pluck_budget': 2000})
		return cases

	def generate(self, rng: random.Random, index: int) -> dict[str, Any]:
		r = rng.random()
		pool = pools.fixed_pool(rng.randrange(4)) if rng.random() < 0.5 else pools.gen_pool(rng, allow_invalid=False)
		state = {m: rng.randrange(len(pool['variants'][m])) for m in pool['modules']}
		for m in pool['modules']:
			if '-import' in pool['variants'][m][state[m]]['note']:
				state[m] = 0
		if r < 0.2:
			tree = {'kind': 'module', 'module': rng.choice(sorted(ZOO))}
		elif r < 0.5:
			tree = {'kind': 'module', 'module': rng.choice(pool['modules'])}
		elif r < 0.65:
			tree = {'kind': 'module', 'module': rng.choice(LIB_MODULES)}
		else:
			tags = GRAMMAR_TAGS if rng.random() < 0.5 else rng.sample(GRAMMAR_TAGS, rng.randint(2, 8))
			tree = {'kind': 'synthetic', 'seed': rng.randrange(10**9), 'depth': rng.randint(2, 6), 'fanout': rng.randint(1, 6), 'tags': tags}
		kinds = [k for k in QUERY_KINDS if rng.random() < 0.7] or ['by', 'children']
		if rng.random() < 0.6 and 'clear' in kinds:
			kinds.remove('clear')
		scheds = [gen_queries(rng, rng.randint(50, 400), kinds) for _ in range(6)]
		return {'pool': pool, 'state': state, 'tree': tree, 'schedules': scheds, 'pluck_budget': 400}

	def execute(self, case: dict[str, Any]) -> dict[str, Any]:
		return C10Runner(case).execute()

	def minimise(self, case: dict[str, Any], vclass: str) -> dict[str, Any]:
		def fails_with(scheds: list[list[dict[str, Any]]]) -> bool:
			res = C10Runner({**case, 'schedules': scheds}).execute()
			return any(v['class'] == vclass for v in res['violations'])
		scheds = case['schedules']
		for s in scheds:
			if fails_with([s]):
				scheds = [s]
				break
		if len(scheds) == 1:
			scheds = [ddmin(scheds[0], lambda qs: bool(qs) and fails_with([qs]), budget=40)]
		return {**case, 'schedules': scheds}

	def sample_of(self, case: dict[str, Any]) -> Any:
		return {'tree': case['tree'], 'schedules': len(case['schedules']), 'first_schedule_head': case['schedules'][0][:10]}
