"""persist-sim: histories of edits / runs / cache operations / faults over one simulated disk, one forked tranp process per run.

Used by C05 (cache never changes the result), C14/C15 (restart round trips observed inside the same histories)
and, in runner mode, C06.
"""
import os
import random
from typing import Any

from tranpsim import pools, tasks
from tranpsim.core import DEFAULT_CONFIG, Scratch, Snapshot, canon_hex, digest
from tranpsim.proc import sim_process

CACHE = '.cache/tranp'

WRITE_FAULTS = ('crash@write', 'crash@write+zeros', 'enospc@write')
FAULT_KINDS = ('crash@open', 'crash@write', 'crash@write+zeros', 'crash@after-unlink', 'crash@between-files', 'enospc@write', 'eacces@unlink', 'eacces@open')


# ---------------------------------------------------------------------------------------------
# project = scratch disk + pool + current variant per module


class Project:
	def __init__(self, pool: dict[str, Any], config: dict[str, Any] | None = None, tag: str = 'p') -> None:
		self.pool = pool
		self.config = dict(config or DEFAULT_CONFIG)
		self.sc = Scratch(tag)
		self.sc.write_config(self.config)
		self.state: dict[str, int] = {}
		for i, m in enumerate(pool['modules']):
			self.set_variant(m, (pool.get('initial') or {}).get(m, 0), 10**9)
		self.processes = 0

	def set_variant(self, module: str, variant: int, delta_ns: int) -> int:
		variant %= len(self.pool['variants'][module])
		self.state[module] = variant
		src = self.pool['variants'][module][variant]['src']
		return self.sc.edit(pools.module_relpath(module), src.encode('utf-8'), delta_ns)

	def touch(self, module: str, delta_ns: int) -> int:
		return self.set_variant(module, self.state[module], delta_ns)

	def state_key(self) -> tuple:
		return tuple(sorted(self.state.items()))

	def outputs(self) -> dict[str, str]:
		outs: dict[str, str] = {}
		for rel in self.sc.files('out'):
			outs[rel] = (self.sc.read(rel) or b'').decode('utf-8', 'replace')
		return outs

	def cache_files(self) -> list[str]:
		return self.sc.files('.cache')

	def run(self, *, force: bool = True, enabled: bool | None = None, fault: dict[str, Any] | None = None, modules: list[str] | None = None, versions: dict[str, str] | None = None, observe: Any = None, timeout: float = 120.0, use_config_globs: bool = False) -> dict[str, Any]:
		self.processes += 1
		mods = modules if modules is not None else (None if use_config_globs else list(self.pool['modules']))
		task = tasks.runner_task(mods, force=force, cache_enabled=enabled, versions=versions, observe=observe)
		rec = sim_process(self.sc.root, task, fault=fault, timeout=timeout)
		if rec['status'] == 'timeout':
			# two-stage timeout: repeat once with 5x the limit before it may become a verdict
			rec = sim_process(self.sc.root, task, fault=fault, timeout=timeout * 5)
			rec['retried_timeout'] = True
		return rec

	def run_task(self, task: Any, timeout: float = 240.0) -> dict[str, Any]:
		self.processes += 1
		return sim_process(self.sc.root, task, fault=None, timeout=timeout)

	def destroy(self) -> None:
		self.sc.destroy()


# ---------------------------------------------------------------------------------------------
# cold oracle


_LIB_SEED: dict[str, Snapshot] = {}


def library_seed(config_key: str = 'default') -> Snapshot:
	"""Cache files (parser pickle + library modules) produced by a truly cold run of a trivial project by this very check."""
	if config_key in _LIB_SEED:
		return _LIB_SEED[config_key]
	pool = {'shape': 'seed', 'modules': ['src.zz'], 'variants': {'src.zz': [{'src': 'def zz(k: int) -> int:\n\treturn k\n', 'imports': [], 'note': 'seed'}]}, 'edges': []}
	proj = Project(pool, tag='seed')
	try:
		rec = proj.run(force=True)
		if rec['status'] != 'ok':
			raise RuntimeError(f"library seed run failed: {rec.get('error')}")
		snap = proj.sc.snapshot()
		seed = {rel: val for rel, val in snap.items() if rel.startswith('.cache') and '/src/' not in rel}
	finally:
		proj.destroy()
	_LIB_SEED[config_key] = seed
	return seed


class ColdOracle:
	"""`the same run started with an empty cache directory`, memoised per source state.

	With enabled=False it is the *fresh process that parses and analyses everything itself* (C14/C15 oracle)."""

	def __init__(self, pool: dict[str, Any], config: dict[str, Any] | None = None, enabled: bool | None = None, observe: Any = None) -> None:
		self.pool = pool
		self.config = config
		self.enabled = enabled
		self.observe = observe
		self.memo: dict[tuple, dict[str, Any]] = {}
		self.proj: Project | None = None
		self.cold_runs = 0
		self.truly_cold_runs = 0

	def get(self, state: dict[str, int], truly_cold: bool = False, modules: list[str] | None = None, observe: Any = None) -> dict[str, Any]:
		key = (tuple(sorted(state.items())), truly_cold, tuple(modules) if modules else None, observe is not None)
		if key in self.memo:
			return self.memo[key]
		if self.proj is None:
			self.proj = Project(self.pool, self.config, tag='cold')
		proj = self.proj
		for m, v in state.items():
			if proj.state.get(m) != v:
				proj.set_variant(m, v, 10**9)
		proj.sc.clear('.cache')
		proj.sc.clear('out')
		if not truly_cold and self.enabled is not False:
			for rel, (content, mtime) in library_seed().items():
				proj.sc.write(rel, content, mtime)
		else:
			self.truly_cold_runs += 1
		self.cold_runs += 1
		rec = proj.run(force=True, modules=modules, enabled=self.enabled, observe=observe or self.observe)
		ans = {'status': rec['status'], 'error': rec.get('error'), 'outputs': proj.outputs() if rec['status'] == 'ok' else {}, 'observed': (rec.get('result') or {}).get('observed')}
		self.memo[key] = ans
		return ans

	def destroy(self) -> None:
		if self.proj is not None:
			self.proj.destroy()
			self.proj = None


# ---------------------------------------------------------------------------------------------
# fault placement


def is_cache(rel: str) -> bool:
	return rel.startswith('.cache')


def file_class(rel: str) -> str:
	base = os.path.basename(rel)
	if base.startswith('parser.cache'):
		return 'parser'
	if '-symbols-' in base:
		return 'symbols'
	if rel.startswith('out'):
		return 'output'
	return 'tree'


def resolve_fault(trace: list[list[Any]], spec: dict[str, Any]) -> dict[str, Any] | None:
	"""Turn a seeded fault spec {'kind','pick','prefer','kmode','kfrac'} into an explicit {'at','kind','k'} for this trace."""
	kind = spec['kind']
	want = {'crash@open': 'open-w', 'eacces@open': 'open-w', 'crash@write': 'write', 'crash@write+zeros': 'write', 'enospc@write': 'write', 'crash@after-unlink': 'unlink', 'eacces@unlink': 'unlink', 'crash@between-files': 'close'}[kind]
	scope = spec.get('scope', 'cache')
	cands = [i for i, ev in enumerate(trace) if ev[0] == want and (is_cache(ev[1]) if scope == 'cache' else ev[1].startswith('out'))]
	if want == 'write':
		cands = [i for i in cands if trace[i][2] >= 2]
	prefer = spec.get('prefer')
	if prefer in ('symbols', 'tree', 'parser'):
		sub = [i for i in cands if file_class(trace[i][1]) == prefer]
		cands = sub or cands
	elif prefer == 'first':
		cands = cands[:1]
	elif prefer == 'last':
		cands = cands[-1:]
	elif prefer == 'after-unlink':
		sub = [i for i in cands if i > 0 and trace[i - 1][0] == 'unlink']
		cands = sub or cands
	if 'nth' in spec:
		cands = cands[spec['nth']:spec['nth'] + 1]
	if not cands:
		return None
	at = cands[min(len(cands) - 1, int(spec.get('pick', 0.0) * len(cands)))]
	out: dict[str, Any] = {'at': at, 'kind': kind, 'path': trace[at][1]}
	if want == 'write':
		n = trace[at][2]
		kmode = spec.get('kmode', 'half')
		k = {'0': 0, '1': 1, 'half': n // 2, 'last': n - 1, 'full': n}.get(kmode)
		if k is None:
			k = int(spec.get('kfrac', 0.5) * n)
		# 'full' = the whole write reached the file and the process died right after it (before any truncate / close / next file)
		out['k'] = n if kmode == 'full' else max(0, min(k, n - 1))
		out['n'] = n
	if kind == 'eacces@open':
		out['count'] = int(spec.get('count', 1))
	return out


def gen_fault_spec(rng: random.Random, kinds: tuple[str, ...] = FAULT_KINDS) -> dict[str, Any]:
	kind = rng.choice(kinds)
	spec: dict[str, Any] = {'kind': kind, 'pick': round(rng.random(), 4), 'prefer': rng.choice([None, None, 'symbols', 'tree', 'parser', 'first', 'last', 'after-unlink'])}
	if kind in WRITE_FAULTS:
		spec['kmode'] = rng.choice(['0', '1', 'half', 'last', 'frac'])
		spec['kfrac'] = round(rng.random(), 4)
	return spec


# ---------------------------------------------------------------------------------------------
# canonical log of one run (for determinism digests)


def canon_trace(trace: list[list[Any]], table: dict[str, str], abstract_parser_sizes: bool = True) -> list[list[Any]]:
	"""Paths with cache identities replaced by first-appearance indices; runs of consecutive unlinks as a sorted set
	(glob order is directory order); pickled-parser chunk sizes abstracted (they differ between hash seeds)."""
	out: list[list[Any]] = []
	pending_unlinks: list[list[Any]] = []

	def canon(ev: list[Any]) -> list[Any]:
		return [canon_hex(x, table) if isinstance(x, str) else x for x in ev]

	def flush() -> None:
		nonlocal pending_unlinks
		for ev in sorted(pending_unlinks):
			out.append(canon(ev))
		pending_unlinks = []

	for ev in trace:
		if ev[0] == 'unlink':
			pending_unlinks.append(list(ev))
			continue
		flush()
		ev2 = canon(ev)
		if abstract_parser_sizes and ev2[0] == 'write' and 'parser.cache' in ev2[1]:
			ev2 = ev2[:2] + ['*']
		out.append(ev2)
	flush()
	return out
