"""C19 — the dependency container follows its simple reference model (di-sim, in-process).

Containers are the 'nodes': up to four live DI/LazyDI handles related by clone/combine, operated in a seeded order,
with re-entrant factories (a factory resolves other symbols while being resolved) and failing factories (injected fault).
After every operation the observation is compared with an executable reference model."""
import random
from typing import Any

from tranpsim.core import ddmin, digest
from tranpsim.framework import Engine

MAX_HANDLES = 4


def load_universe() -> Any:
	from tranpsim import di_universe
	return di_universe


# ---------------------------------------------------------------------------------------------
# reference model


class Binding:
	__slots__ = ('fid', 'gen', 'inst', 'materialised')

	def __init__(self, fid: str, gen: int, inst: Any = None, materialised: bool = True) -> None:
		self.fid = fid
		self.gen = gen
		self.inst = inst  # None | ('obj', serial) | ('made-at', op index) | ('di', handle uid)
		self.materialised = materialised

	def copy(self) -> 'Binding':
		return Binding(self.fid, self.gen, self.inst, self.materialised)


class Model:
	"""Per handle a map symbol -> (generation, factory, instance?). combine = right-biased union of bindings *with their instances*.
	Handles never alias. resolve creates once per generation through invoke(factory); invoke fills the leading parameters whose
	annotations are bound (stopping at the first unbound one), the rest must match the given arguments, else ValueError."""

	def __init__(self, u: Any) -> None:
		self.u = u
		self.handles: dict[int, dict[str, Binding]] = {}
		self.next_uid = 0
		self.gen = 0
		self.flaky: dict[str, int] = {}
		self.diffs: list[str] = []
		self.probes: dict[str, int] = {}
		self.depth = 0
		self.max_depth = 0
		self.now = -1

	def probe(self, k: str, n: int = 1) -> None:
		self.probes[k] = self.probes.get(k, 0) + n

	def origin(self, s: str) -> str:
		return self.u.ORIGIN.get(s, s)

	def newgen(self) -> int:
		self.gen += 1
		return self.gen

	def new_handle(self, bindings: dict[str, Binding]) -> int:
		uid = self.next_uid
		self.next_uid += 1
		self.handles[uid] = bindings
		return uid

	# -- transitions that mirror the statement (mutating); return the failure class or None

	def sim_resolve(self, uid: int, s: str, k: int) -> str | None:
		bd = self.handles[uid].get(self.origin(s))
		if bd is None:
			return 'ValueError'
		if bd.inst is not None:
			return None
		if bd.fid.startswith('BROKEN:'):
			# a by-name definition whose target cannot be imported: every attempt repeats the import error, nothing changes
			self.probe('resolve of a by-name definition that fails to import')
			return bd.fid[7:]
		if bd.fid.startswith('LOC:'):
			bd.inst = ('di', int(bd.fid[4:]))
			bd.materialised = True
			return None
		self.depth += 1
		self.max_depth = max(self.max_depth, self.depth)
		try:
			r = self.sim_invoke(uid, bd.fid, [], k)
		finally:
			self.depth -= 1
		if r:
			return r
		bd.inst = ('made-at', k)
		bd.materialised = True
		return None

	def sim_invoke(self, uid: int, fid: str, args: list[Any], k: int) -> str | None:
		f, prod, lead, plain = self.u.FACTORIES[fid]
		binds = self.handles[uid]
		n = 0
		for p in lead:
			if self.origin(p) not in binds:
				break
			r = self.sim_resolve(uid, p, k)
			if r:
				return r
			n += 1
		want = [self.u.SYMBOLS[p] for p in lead[n:]] + list(plain)
		if len(args) != len(want) or any(not isinstance(a, getattr(t, '__origin__', t)) for a, t in zip(args, want)):
			return 'ValueError'
		if fid == 'f_loc':
			# the factory body resolves S0 through the injected locator (re-entrancy)
			loc = binds['Locator']
			r = self.sim_resolve(int(loc.fid[4:]), 'S0', k)
			self.probe('re-entrant resolve from inside a factory')
			if r:
				return r
		if self.flaky.get(fid, 0) > 0:
			self.flaky[fid] -= 1
			self.probe(f"armed factory raised {self.u.FLAKY_ERR.get(fid, 'RuntimeError')}")
			return self.u.FLAKY_ERR.get(fid, 'RuntimeError')
		return None

	def lead_count(self, uid: int, fid: str) -> int:
		n = 0
		for p in self.u.FACTORIES[fid][2]:
			if self.origin(p) in self.handles[uid]:
				n += 1
			else:
				break
		return n

	# -- explaining an observed value against the (already advanced) model

	def explain_resolved(self, uid: int, s: str, obs: Any, ctx: str) -> None:
		bd = self.handles[uid].get(self.origin(s))
		if bd is None:
			self.diffs.append(f'{ctx}: a value for {s} although the model has no binding')
			return
		if bd.inst is None:
			# the dependant was made during an earlier, failed call and its dependency's symbol has been re-bound since: the object it holds
			# belongs to a binding generation the model no longer tracks
			self.probe('dependency object predates the current binding of its symbol (not attributed)')
			return
		kind, val = bd.inst
		if kind == 'di':
			if not isinstance(obs, dict) or obs.get('di') != val:
				self.diffs.append(f'{ctx}: expected container #{val} for {s}, got {strip(obs)}')
			return
		if not isinstance(obs, dict) or 'serial' not in obs:
			self.diffs.append(f'{ctx}: expected an object for {s}, got {strip(obs)}')
			return
		if kind == 'obj':
			if obs['serial'] != val:
				self.diffs.append(f"{ctx}: {s} must be the one instance of its binding generation (serial {val}, factory {bd.fid}); got serial {obs['serial']} made by {obs['by']} during op {obs['op']}")
			return
		# ('made-at', k): first sight of an instance the model says was created during op k by bd.fid
		if obs['op'] != val or obs['by'] != bd.fid:
			self.diffs.append(f"{ctx}: {s} must be a fresh instance made by {bd.fid} during op {val} (no instance existed for this binding generation); got serial {obs['serial']} made by {obs['by']} during op {obs['op']}")
			return
		bd.inst = ('obj', obs['serial'])
		if val == self.now:
			self.explain_made(uid, bd.fid, obs, ctx)
		else:
			# made during an earlier call that failed after creating it (e.g. an argument mismatch behind resolved leading parameters): its own
			# dependencies belong to the bindings of that moment, which may have been replaced since
			self.probe('first sight of an instance made during an earlier failed call (its dependencies are not attributed)')

	def explain_made(self, uid: int, fid: str, obs: Any, ctx: str, n_lead: int | None = None) -> None:
		"""The leading parameters of the factory were filled with the container's own resolve results."""
		f, prod, lead, plain = self.u.FACTORIES[fid]
		deps = obs.get('dep_objs', [])
		if fid == 'f_loc':
			loc = self.handles[uid]['Locator']
			if deps:
				self.explain_resolved(int(loc.fid[4:]), 'S0', deps[0], ctx + '>f_loc.S0')
			return
		n = len(lead) if n_lead is None else n_lead
		for i, p in enumerate(lead[:n]):
			if i < len(deps):
				self.explain_resolved(uid, p, deps[i], f'{ctx}>{fid}.{p}')


def strip(obs: Any) -> Any:
	if isinstance(obs, dict):
		return {k: v for k, v in obs.items() if k != 'dep_objs'}
	return obs


# ---------------------------------------------------------------------------------------------
# executor: real containers + model in lock-step


class _Skip(Exception):
	pass


# by-name definitions whose materialisation fails: dotted path -> the error every resolve must repeat
BROKEN = {
	'@missing-module': ('tranpsim.no_such_module.factory', 'ModuleNotFoundError'),
	'@missing-attr': ('tranpsim.di_universe.no_such_factory', 'AttributeError'),
}


class DISim:
	def __init__(self, case: dict[str, Any]) -> None:
		from rogw.tranp.lang.di import DI, LazyDI
		from rogw.tranp.lang.locator import Locator
		self.u = load_universe()
		self.case = case
		self.lazy = case.get('cls', 'LazyDI') == 'LazyDI'
		self.DI, self.LazyDI, self.Locator = DI, LazyDI, Locator
		self.real: dict[int, Any] = {}        # slot -> container
		self.uid_of: dict[int, int] = {}      # slot -> model uid
		self.by_uid: dict[int, Any] = {}      # uid -> container (also retired ones: a Locator may still point at them)
		self.model = Model(self.u)
		self.violations: list[dict[str, Any]] = []
		self.counters: dict[str, dict[str, int]] = {'ops': {}, 'probes': {}, 'faults_fired': {}}
		self.distinct: set[str] = set()
		self.trace: list[Any] = []
		self.kinds: list[str] = []
		self.relation: dict[int, str] = {}

	def bump(self, t: str, k: str, n: int = 1) -> None:
		self.counters[t][k] = self.counters[t].get(k, 0) + n

	def describe(self, value: Any) -> Any:
		if isinstance(value, self.u.Obj):
			d = value.describe()
			refs = getattr(value, '_dep_refs', [])
			d['dep_objs'] = [self.describe(x) if isinstance(x, self.u.Obj) else repr(x) for x in refs]
			return d
		for uid, di in self.by_uid.items():
			if value is di:
				return {'di': uid}
		if isinstance(value, (bool, int, str)) or value is None:
			return {'plain': value}
		return {'other': type(value).__name__}

	def install(self, slot: int, di: Any, binds: dict[str, Binding], relation: str) -> None:
		uid = self.model.new_handle(binds)
		self.real[slot] = di
		self.uid_of[slot] = uid
		self.by_uid[uid] = di
		self.relation[slot] = relation

	def make_handle(self, slot: int, defs: dict[str, Any]) -> None:
		u, m = self.u, self.model
		uid = m.next_uid
		binds: dict[str, Binding] = {}
		if self.lazy:
			definitions: dict[str, Any] = {}
			for s, spec in defs.items():
				fid, byname = spec['f'], spec.get('byname', False)
				if fid in BROKEN:
					definitions[u.SYMBOL_PATH[s]] = BROKEN[fid][0]
					binds[s] = Binding('BROKEN:' + BROKEN[fid][1], m.newgen(), None, materialised=False)
					continue
				definitions[u.SYMBOL_PATH[s]] = u.DOTTED[fid] if byname and fid in u.DOTTED else u.FACTORIES[fid][0]
				binds[s] = Binding(fid, m.newgen(), None, materialised=False)
			di = self.LazyDI.instantiate(definitions)
		else:
			di = self.DI()
			for s, spec in defs.items():
				fid = u.BINDABLE[s][0] if spec['f'] in BROKEN else spec['f']  # (by-name definitions exist in LazyDI only)
				di.bind(u.SYMBOLS[s], u.FACTORIES[fid][0])
				binds[s] = Binding(fid, m.newgen(), None)
		# production shape (providers/app.py di_container): the container is its own Locator
		di.bind(self.Locator, lambda: di)
		binds['Locator'] = Binding(f'LOC:{uid}', m.newgen(), None)
		self.install(slot, di, binds, 'new')

	def run(self) -> dict[str, Any]:
		u = self.u
		u.Clock.reset()
		_patch_obj_refs(u)
		self.make_handle(0, self.case.get('init') or {'S0': {'f': 'S0'}})
		for k, op in enumerate(self.case['ops']):
			u.Clock.op = k
			try:
				self.step(k, op)
			except _Skip:
				self.bump('probes', 'op skipped (empty slot)')
				continue
			if self.model.diffs:
				first = self.model.diffs[0]
				vclass = classify(first, op)
				self.violations.append({'class': vclass, 'op_index': k, 'detail': {'op': op, 'container_class': 'LazyDI' if self.lazy else 'DI', 'diffs': self.model.diffs[:4]}, 'known': None, 'sig': vclass})
				break
			self.check_can_resolve(k, op)
			if self.violations:
				break
		for pk, n in self.model.probes.items():
			self.bump('probes', pk, n)
		self.bump('probes', f'max nested resolve depth {self.model.max_depth}')
		return {'violations': self.violations, 'counters': self.counters, 'distinct': sorted(self.distinct), 'states': [], 'log': digest(self.trace), 'processes': 0, 'sim_time_s': 0.0}

	def slot(self, op: dict[str, Any], key: str = 'h') -> int:
		s = op[key] % MAX_HANDLES
		if s not in self.real:
			raise _Skip()
		return s

	def observe(self, fn: Any) -> tuple[str, Any]:
		try:
			return 'ok', fn()
		except BaseException as e:  # noqa: BLE001
			return 'exc', type(e).__name__

	def args_of(self, op: dict[str, Any]) -> list[Any]:
		out = []
		for a in op.get('args', []):
			if isinstance(a, str) and a.startswith('@'):
				cls = self.u.SYMBOLS[a[1:]]
				try:
					out.append(cls())  # a symbol-typed argument passed explicitly
				except TypeError:
					o = cls.__new__(cls)  # (a symbol whose constructor wants its own dependencies: a bare caller-made object)
					self.u.Obj.__init__(o)
					out.append(o)
			else:
				out.append(a)
		return out

	def step(self, k: int, op: dict[str, Any]) -> None:
		u, m = self.u, self.model
		m.now = k
		kind = op['op']
		self.bump('ops', kind)
		if kind == 'flaky':
			u.Clock.flaky_left[op['f']] = op['n']
			m.flaky[op['f']] = op['n']
			self.trace.append(['flaky', op['f'], op['n']])
			return
		if kind == 'new':
			self.make_handle(op['into'] % MAX_HANDLES, op['defs'])
			self.trace.append(['new', sorted(op['defs'])])
			self.kinds.append('new')
			return
		if kind == 'clone':
			src = self.slot(op)
			st, val = self.observe(lambda: self.real[src]._clone())
			if st != 'ok':
				m.diffs.append(f'clone raised {val}')
				return
			self.install(op['into'] % MAX_HANDLES, val, {s: bd.copy() for s, bd in m.handles[self.uid_of[src]].items()}, 'clone-of')
			self.trace.append(['clone', src, op['into'] % MAX_HANDLES])
			self.kinds.append('clone')
			return
		if kind == 'combine':
			l, r = self.slot(op, 'l'), self.slot(op, 'r')
			st, val = self.observe(lambda: self.real[l].combine(self.real[r]))
			if st != 'ok':
				m.diffs.append(f'combine raised {val}')
				return
			binds = {s: bd.copy() for s, bd in m.handles[self.uid_of[l]].items()}
			for s, bd in m.handles[self.uid_of[r]].items():
				if s in binds and s != 'Locator':
					if binds[s].inst is not None and bd.inst is None:
						m.probe('combine: right binding without instance over left binding with instance')
					if not bd.materialised and binds[s].materialised:
						m.probe('combine: right by-name/lazy definition over left materialised binding')
				binds[s] = bd.copy()
			self.install(op['into'] % MAX_HANDLES, val, binds, 'combined-from')
			self.trace.append(['combine', l, r, op['into'] % MAX_HANDLES])
			self.kinds.append('combine')
			return
		h = self.slot(op)
		uid = self.uid_of[h]
		di = self.real[h]
		binds = m.handles[uid]
		rel = self.relation.get(h, 'new')
		self.kinds.append(kind)
		self.distinct.add(f"{'>'.join(self.kinds[-3:])}|{rel}")
		if kind == 'can':
			st, val = self.observe(lambda: di.can_resolve(u.SYMBOLS[op['s']]))
			want = m.origin(op['s']) in binds
			if (st, val) != ('ok', want):
				m.diffs.append(f"can_resolve({op['s']}) = {st}:{val}, model says {want}")
			self.trace.append(['can', h, op['s'], st, val])
		elif kind == 'bind':
			s0 = m.origin(op['s'])
			st, val = self.observe(lambda: di.bind(u.SYMBOLS[op['s']], u.FACTORIES[op['f']][0]))
			if s0 in binds:
				if self.lazy and not binds[s0].materialised:
					# the statement is silent about bind over a not yet materialised by-name definition: either outcome, follow it
					m.probe('bind over a not yet materialised lazy definition (unspecified, followed)')
					if st == 'ok':
						binds[s0] = Binding(op['f'], m.newgen(), None)
				elif (st, val) != ('exc', 'ValueError'):
					m.diffs.append(f"bind({op['s']}) on a bound symbol: expected ValueError, got {st}:{val}")
			elif st != 'ok':
				m.diffs.append(f"bind({op['s']}) on an unbound symbol raised {val}")
			else:
				binds[s0] = Binding(op['f'], m.newgen(), None)
			self.trace.append(['bind', h, op['s'], op['f'], st])
		elif kind == 'unbind':
			s0 = m.origin(op['s'])
			st, val = self.observe(lambda: di.unbind(u.SYMBOLS[op['s']]))
			if st != 'ok':
				m.diffs.append(f"unbind({op['s']}) raised {val}")
			binds.pop(s0, None)
			self.trace.append(['unbind', h, op['s'], st])
		elif kind == 'rebind':
			s0 = m.origin(op['s'])
			st, val = self.observe(lambda: di.rebind(u.SYMBOLS[op['s']], u.FACTORIES[op['f']][0]))
			if st != 'ok':
				m.diffs.append(f"rebind({op['s']}) raised {val}")
			else:
				if s0 in binds and binds[s0].inst is not None:
					m.probe('rebind discards an existing instance')
				binds[s0] = Binding(op['f'], m.newgen(), None)
			self.trace.append(['rebind', h, op['s'], op['f'], st])
		elif kind == 'resolve':
			s0 = m.origin(op['s'])
			had = s0 in binds and binds[s0].inst is not None
			expected = m.sim_resolve(uid, s0, k)
			st, val = self.observe(lambda: di.resolve(u.SYMBOLS[op['s']]))
			obs = self.describe(val) if st == 'ok' else val
			if expected:
				if expected == 'RuntimeError':
					self.bump('faults_fired', 'factory raised during resolve')
				if (st, val) != ('exc', expected):
					m.diffs.append(f"resolve({op['s']}): expected {expected}, got {st}:{strip(obs)}")
			elif st != 'ok':
				m.diffs.append(f"resolve({op['s']}) raised {val}, the model expects a value")
			else:
				if had:
					m.probe('resolve returns the instance of the current generation')
				elif rel == 'clone-of':
					m.probe('instance created after clone')
				elif rel == 'combined-from':
					m.probe('instance created in a combined container')
				m.explain_resolved(uid, s0, obs, f'op{k} resolve({op["s"]})')
			self.trace.append(['resolve', h, op['s'], st, strip(obs)])
		elif kind == 'invoke':
			fid = op['f']
			f = u.FACTORIES[fid][0]
			args = self.args_of(op)
			n_lead = m.lead_count(uid, fid)
			expected = m.sim_invoke(uid, fid, args, k)
			st, val = self.observe(lambda: di.invoke(f, *args))
			obs = self.describe(val) if st == 'ok' else val
			shown = op.get('args', [])
			if expected:
				if expected == 'RuntimeError':
					self.bump('faults_fired', 'factory raised during invoke')
				if (st, val) != ('exc', expected):
					m.diffs.append(f"invoke({fid}, args={shown!r}) with {n_lead} resolvable leading parameter(s): expected {expected}, got {st}:{strip(obs)}")
				elif expected == 'ValueError':
					m.probe('invoke with mismatched arguments -> ValueError')
			elif st != 'ok':
				m.diffs.append(f"invoke({fid}, args={shown!r}) with {n_lead} resolvable leading parameter(s) raised {val}, the model expects a value")
			else:
				if not isinstance(obs, dict) or obs.get('by') != fid or obs.get('op') != k:
					m.diffs.append(f'invoke({fid}) returned {strip(obs)}: expected a fresh object made by {fid} (invoke caches nothing)')
				else:
					m.explain_made(uid, fid, obs, f'op{k} invoke({fid})', n_lead=n_lead)
					passed = obs.get('dep_objs', [])[n_lead:] if fid != 'f_loc' else []
					given = [self.describe(a) if isinstance(a, u.Obj) else repr(a) for a in args]
					if fid != 'f_loc' and [strip(x) for x in passed] != [strip(x) for x in given]:
						m.diffs.append(f'invoke({fid}): the remaining parameters were not passed through as given: {passed} vs {given}')
					m.probe(f'invoke filled {n_lead} leading parameter(s)')
			self.trace.append(['invoke', h, fid, shown, st, strip(obs)])
		else:
			raise ValueError(kind)

	def check_can_resolve(self, k: int, op: dict[str, Any]) -> None:
		"""Cross-invariant after every op: can_resolve of every live handle agrees with the model (detects aliasing between handles)."""
		u, m = self.u, self.model
		for slot, di in self.real.items():
			binds = m.handles[self.uid_of[slot]]
			for name, sym in u.SYMBOLS.items():
				got = di.can_resolve(sym)
				want = m.origin(name) in binds
				if got != want:
					self.violations.append({'class': 'can-resolve-differs-from-model', 'op_index': k, 'detail': {'op': op, 'handle': slot, 'symbol': name, 'container': got, 'model': want, 'relation': self.relation.get(slot)}, 'known': None, 'sig': 'can_resolve'})
					return


def _patch_obj_refs(u: Any) -> None:
	"""Keep references to dependency objects (the universe stores serials only) so nested identities can be explained."""
	if getattr(u.Obj, '_patched', False):
		return
	orig = u.Obj.__init__

	def init(self: Any, *deps: Any) -> None:
		orig(self, *deps)
		self._dep_refs = list(deps)
	u.Obj.__init__ = init
	u.Obj._patched = True


def classify(diff: str, op: dict[str, Any]) -> str:
	kind = op.get('op')
	if kind == 'invoke':
		return 'invoke-argument-check' if 'expected ValueError' in diff else 'invoke-differs-from-model'
	if kind == 'resolve':
		if 'must be the one instance' in diff or 'must be a fresh instance' in diff:
			return 'resolve-identity-differs-from-model'
		return 'resolve-differs-from-model'
	return f'{kind}-differs-from-model'


# ---------------------------------------------------------------------------------------------


class C19(Engine):
	prop = 'C19'
	needs_pipeline = False
	rule = ('case = one sequence of 10-60 operations (bind / unbind / rebind / resolve / can_resolve / invoke with matching, missing, surplus or wrongly typed arguments / clone / combine / '
		'instantiate(definitions, direct and by-name) / arm a failing factory) over up to 4 live containers of one class (DI or LazyDI); after every operation the result class, the identity of '
		'resolved instances (one per binding generation, attributable through creation serials), the filled leading parameters and can_resolve of every handle are compared with the reference model. '
		'distinct_nontrivial = distinct (op-kind trigram, handle relation {new, clone-of, combined-from}) pairs reached')
	quick_runs = 200000
	thorough_runs = 4000000
	quick_budget_s = 90.0
	thorough_budget_s = 1500.0
	components_real = ['DI', 'LazyDI', 'combine', '_clone', 'invoke / __assert_invoke', 'load_module_path (by-name definitions)', 'the production shape of di_container (Locator bound to the container itself)']
	components_stubbed = ['symbol and factory universe is the harness module tranpsim.di_universe (importable, so by-name registration works)']
	assumptions = ['where the statement is silent (bind over a not yet materialised by-name definition) the model accepts either outcome and follows the observed one', 'all handles of one sequence are of the same container class (mixing DI and LazyDI in combine is outside the statement)']

	def canonical_cases(self) -> list[dict[str, Any]]:
		cases: list[dict[str, Any]] = []
		for cls in ('DI', 'LazyDI'):
			def c(ops: list[dict[str, Any]], init: dict[str, Any] | None = None) -> None:
				cases.append({'cls': cls, 'ops': ops, 'init': init or {'S0': {'f': 'S0'}, 'S1': {'f': 'f_s1', 'byname': True}}})
			R = lambda h, s: {'op': 'resolve', 'h': h, 's': s}
			I = lambda f, *a: {'op': 'invoke', 'h': 0, 'f': f, 'args': list(a)}
			c([R(0, 'S0'), R(0, 'S0'), {'op': 'rebind', 'h': 0, 's': 'S0', 'f': 'f_s0'}, R(0, 'S0'), R(0, 'S0')])
			c([R(0, 'S0'), {'op': 'clone', 'h': 0, 'into': 1}, R(1, 'S0'), R(1, 'S1'), R(0, 'S1')])
			c([R(0, 'S0'), {'op': 'new', 'into': 1, 'defs': {'S0': {'f': 'f_s0'}}}, {'op': 'combine', 'l': 0, 'r': 1, 'into': 2}, R(2, 'S0'), R(0, 'S0'), R(1, 'S0')])
			c([R(0, 'S0'), {'op': 'new', 'into': 1, 'defs': {'S0': {'f': 'f_s0', 'byname': True}}}, {'op': 'combine', 'l': 0, 'r': 1, 'into': 2}, R(2, 'S0'), R(1, 'S0')])
			c([{'op': 'new', 'into': 1, 'defs': {'S0': {'f': 'f_s0'}}}, R(1, 'S0'), {'op': 'combine', 'l': 0, 'r': 1, 'into': 2}, R(2, 'S0'), R(0, 'S0')])
			c([{'op': 'bind', 'h': 0, 's': 'S2', 'f': 'f_s2'}, R(0, 'S2'), R(0, 'S0'), {'op': 'unbind', 'h': 0, 's': 'S0'}, R(0, 'S2'), R(0, 'S0'), {'op': 'bind', 'h': 0, 's': 'S0', 'f': 'Maker.make_s0'}, R(0, 'S0')])
			c([I('f_s4', 1, 'a'), I('f_s4', 1), I('f_s4', 'a', 1), I('f_s4', 1, 'a', 2), I('f_s4', 2, 'b')])
			c([I('f_s4', 1), I('f_s4', 1), I('f_s4', 1, 'a')])
			c([{'op': 'unbind', 'h': 0, 's': 'S0'}, I('f_s3'), I('f_s3', '@S0', '@S1'), {'op': 'bind', 'h': 0, 's': 'S0', 'f': 'S0'}, I('f_s3'), I('f_s3_rev'), I('f_s3', '@S1')])
			c([{'op': 'bind', 'h': 0, 's': 'S5', 'f': 'f_loc'}, {'op': 'clone', 'h': 0, 'into': 1}, {'op': 'rebind', 'h': 1, 's': 'S0', 'f': 'f_s0'}, R(1, 'S5'), R(1, 'S0'), R(0, 'S0')])
			c([{'op': 'flaky', 'f': 'f_flaky', 'n': 1}, {'op': 'rebind', 'h': 0, 's': 'S1', 'f': 'f_flaky'}, R(0, 'S1'), R(0, 'S1'), R(0, 'S1')])
			c([{'op': 'flaky', 'f': 'f_flaky2', 'n': 1}, {'op': 'bind', 'h': 0, 's': 'S2', 'f': 'f_flaky2'}, R(0, 'S2'), R(0, 'S0'), R(0, 'S2')])
			c([{'op': 'bind', 'h': 0, 's': 'G0[int]', 'f': 'f_g0'}, R(0, 'G0'), R(0, 'G0[int]'), {'op': 'can', 'h': 0, 's': 'G0'}, {'op': 'bind', 'h': 0, 's': 'G0', 'f': 'f_g0'}, {'op': 'unbind', 'h': 0, 's': 'G0[int]'}, {'op': 'can', 'h': 0, 's': 'G0'}])
			# parameters with default values are parameters like any other: filled when bound, otherwise they must be passed, never defaulted silently
			c([I('f_s3_opt'), {'op': 'unbind', 'h': 0, 's': 'S1'}, I('f_s3_opt'), I('f_s3_opt', '@S1'), I('f_s4_opt', 1, 'a'), I('f_s4_opt', 1), {'op': 'rebind', 'h': 0, 's': 'S3', 'f': 'f_s3_opt'}, R(0, 'S3'),
				{'op': 'bind', 'h': 0, 's': 'S1', 'f': 'f_s1'}, {'op': 'rebind', 'h': 0, 's': 'S3', 'f': 'f_s3_opt'}, R(0, 'S3')])
			# a REGISTERED leading parameter whose resolution fails (its factory raises ValueError / its own dependency is missing) is never
			# treated as unbound: the failure escapes, the caller's object is not passed through in its place
			c([{'op': 'flaky', 'f': 'f_flaky_v', 'n': 2}, {'op': 'rebind', 'h': 0, 's': 'S1', 'f': 'f_flaky_v'}, I('f_s3', '@S1'), I('f_s3'), I('f_s3'), R(0, 'S1')])
			c([{'op': 'unbind', 'h': 0, 's': 'S0'}, {'op': 'bind', 'h': 0, 's': 'S2', 'f': 'f_s2'}, I('f_on_s2', '@S2'), I('f_on_s2'), R(0, 'S2'), {'op': 'bind', 'h': 0, 's': 'S0', 'f': 'S0'}, I('f_on_s2'), R(0, 'S2')])
			for broken in BROKEN:
				# materialisation of a by-name definition fails: the definition stays, the error repeats, clone / combine carry it, rebind repairs it
				c([R(0, 'S1'), R(0, 'S1'), {'op': 'can', 'h': 0, 's': 'S1'}, I('f_s3'), {'op': 'clone', 'h': 0, 'into': 1}, R(1, 'S1'), {'op': 'new', 'into': 2, 'defs': {'S0': {'f': 'f_s0'}}},
					{'op': 'combine', 'l': 2, 'r': 0, 'into': 3}, R(3, 'S1'), {'op': 'can', 'h': 3, 's': 'S1'}, {'op': 'rebind', 'h': 0, 's': 'S1', 'f': 'f_s1'}, R(0, 'S1'), R(1, 'S1')],
					init={'S0': {'f': 'S0'}, 'S1': {'f': broken, 'byname': True}})
			c([{'op': 'bind', 'h': 0, 's': 'G0', 'f': 'f_g0'}, I('f_s5_mixed', 3), I('f_s5_mixed', 'x'), {'op': 'unbind', 'h': 0, 's': 'G0'}, I('f_s5_mixed', 3)])
		return cases

	def generate(self, rng: random.Random, index: int) -> dict[str, Any]:
		u = load_universe()
		cls = rng.choice(['DI', 'LazyDI'])
		syms = [s for s in u.SYMBOLS if s != 'Locator']
		focus = rng.sample(syms, rng.randint(3, len(syms)))
		w = {'bind': rng.uniform(0.5, 2), 'unbind': rng.uniform(0.2, 1.5), 'rebind': rng.uniform(0.3, 1.5), 'resolve': rng.uniform(2, 5), 'can': rng.uniform(0, 1),
			'invoke': rng.uniform(0.5, 3), 'clone': rng.uniform(0.2, 1), 'combine': rng.uniform(0.2, 1.5), 'new': rng.uniform(0.1, 0.8), 'flaky': rng.choice([0, 0, 0.3, 0.8])}
		broken_p = rng.choice([0, 0, 0.15, 0.4])
		plain_focus = [x for x in focus if x not in u.ORIGIN and x in u.BINDABLE and '.' not in x]  # (nested classes cannot be registered by dotted name)

		def defs() -> dict[str, Any]:
			out = {}
			for s in rng.sample(plain_focus, rng.randint(0, min(4, len(plain_focus)))):
				out[s] = {'f': rng.choice(u.BINDABLE[s]), 'byname': rng.random() < 0.5}
				if broken_p and rng.random() < broken_p:
					out[s] = {'f': rng.choice(sorted(BROKEN)), 'byname': True}
			return out

		def fid_for(s: str) -> str:
			return rng.choice(u.BINDABLE.get(u.ORIGIN.get(s, s), ['S0']))

		ops: list[dict[str, Any]] = []
		n_handles = 1
		for _ in range(rng.randint(10, 60)):
			kind = rng.choices(list(w), weights=list(w.values()))[0]
			h = rng.randrange(n_handles)
			s = rng.choice(focus)
			if kind in ('bind', 'rebind'):
				ops.append({'op': kind, 'h': h, 's': s, 'f': fid_for(s)})
			elif kind in ('unbind', 'resolve', 'can'):
				ops.append({'op': kind, 'h': h, 's': s})
			elif kind == 'invoke':
				fid = rng.choice(list(u.FACTORIES))
				f, prod, lead, plain = u.FACTORIES[fid]
				good: list[Any] = [rng.randrange(5) if t is int else rng.choice(['a', 'b']) for t in plain]
				r = rng.random()
				if r < 0.5:
					args = good
				elif r < 0.62:
					args = good[:-1] if good else [1]
				elif r < 0.74:
					args = good + [rng.choice([1, 'x'])]
				elif r < 0.84:
					args = list(reversed(good)) if len(good) > 1 else ([('a' if isinstance(good[0], int) else 3)] if good else [])
				elif r < 0.94 and lead:
					# pass the trailing annotated parameters explicitly (meaningful when a leading one is unbound)
					j = rng.randrange(len(lead))
					args = ['@' + u.ORIGIN.get(p, p) for p in lead[j:] if p != 'Locator'] + good
				else:
					args = []
				ops.append({'op': 'invoke', 'h': h, 'f': fid, 'args': args})
			elif kind == 'clone':
				into = rng.randrange(min(MAX_HANDLES, n_handles + 1))
				n_handles = max(n_handles, into + 1)
				ops.append({'op': 'clone', 'h': h, 'into': into})
			elif kind == 'combine':
				into = rng.randrange(min(MAX_HANDLES, n_handles + 1))
				ops.append({'op': 'combine', 'l': h, 'r': rng.randrange(n_handles), 'into': into})
				n_handles = max(n_handles, into + 1)
			elif kind == 'new':
				into = rng.randrange(min(MAX_HANDLES, n_handles + 1))
				n_handles = max(n_handles, into + 1)
				ops.append({'op': 'new', 'into': into, 'defs': defs()})
			else:
				ops.append({'op': 'flaky', 'f': rng.choice(['f_flaky', 'f_flaky2', 'f_flaky_v']), 'n': rng.randint(1, 2)})
		return {'cls': cls, 'ops': ops, 'init': defs() or {'S0': {'f': 'S0'}}}

	def execute(self, case: dict[str, Any]) -> dict[str, Any]:
		return DISim(case).run()

	def minimise(self, case: dict[str, Any], vclass: str) -> dict[str, Any]:
		def fails(ops: list[dict[str, Any]]) -> bool:
			res = DISim({**case, 'ops': ops}).run()
			return any(v['class'] == vclass for v in res['violations'])
		return {**case, 'ops': ddmin(case['ops'], fails, budget=400)}

	def sample_of(self, case: dict[str, Any]) -> Any:
		return {'cls': case['cls'], 'init': case.get('init'), 'ops': case['ops'][:14]}
