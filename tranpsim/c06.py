"""C06 — non-forced runs leave every output equal to a forced run (persist-sim, runner mode)."""
import json
import random
import re
from typing import Any

from tranpsim import pools
from tranpsim.core import DEFAULT_CONFIG, HarnessError, ddmin, digest, known_for
from tranpsim.framework import Engine
from tranpsim.history import account_cache_writes, stale_transitive_files
from tranpsim.persist import Project, canon_trace, resolve_fault

KF_DEP = 'C06/dependency-edit-not-regenerated'


def header_of(text: str | None) -> dict[str, Any] | None:
	"""The harness's own reading of the header (never MetaHeader): the JSON object that follows the first '@tranp.meta:' tag,
	whatever comment syntax surrounds it."""
	if not text:
		return None
	at = text.find('@tranp.meta:')
	if at < 0:
		return None
	brace = text.find('{', at)
	eol = text.find('\n', at)
	if brace < 0 or (eol >= 0 and brace > eol):
		return None
	try:
		obj, _ = json.JSONDecoder().raw_decode(text[brace:])
	except json.JSONDecodeError:
		return None
	return obj if isinstance(obj, dict) else None


def observe_headers(app: Any, seams: Any) -> dict[str, Any]:
	"""In the child: MetaHeader.try_from_content on every output file (round-trip clause)."""
	import os
	from rogw.tranp.data.meta.header import MetaHeader
	out: dict[str, Any] = {}
	for dirpath, dirnames, filenames in os.walk('out'):
		dirnames.sort()
		for name in sorted(filenames):
			full = os.path.join(dirpath, name)
			with open(full, 'rb') as f:
				content = f.read().decode('utf-8')
			try:
				h = MetaHeader.try_from_content(content)
				out[full] = json.loads(h.to_json()) if h is not None else None
			except Exception as e:
				out[full] = f'!{type(e).__name__}'
	return out


class C06Runner:
	def __init__(self, case: dict[str, Any]) -> None:
		self.case = case
		self.pool = case['pool']
		self.ops = case['ops']
		self.config = {**DEFAULT_CONFIG, **(case.get('config') or {})}
		self.order = case.get('order') or list(self.pool['modules'])
		# glob stratum: the target list comes from config.input_globs through the real include_module_paths (directory order, overlapping globs)
		self.use_globs = bool(case.get('glob'))
		self.proj = Project(self.pool, self.config, tag='c06')
		self.versions: dict[str, str] = {}
		self.violations: list[dict[str, Any]] = []
		self.counters: dict[str, dict[str, int]] = {}
		self.distinct: set[str] = set()
		self.states: set[str] = set()
		self.log: list[Any] = []
		self.hex_table: dict[str, str] = {}
		self.kinds_seq: list[str] = []
		self.path_of: dict[str, str] = {}  # module -> output relpath (from the forced oracle's headers)
		self.out_written: dict[str, dict[str, Any]] = {}  # output file -> {'state','versions'} when it was last written
		self.known_ids = {k['id'] for k in known_for('C06')}
		self.changed = False
		self.cache_written: dict[str, dict[str, Any]] = {}

	def bump(self, table: str, key: str, n: int = 1) -> None:
		t = self.counters.setdefault(table, {})
		t[key] = t.get(key, 0) + n

	def violation(self, vclass: str, i: int, detail: Any, known: str | None = None, sig: str = '') -> None:
		self.violations.append({'class': vclass, 'op_index': i, 'detail': detail, 'known': known, 'sig': sig})

	def execute(self) -> dict[str, Any]:
		try:
			for i, op in enumerate(self.ops):
				self.apply(i, op)
			return {'violations': self.violations, 'counters': self.counters, 'distinct': sorted(self.distinct), 'states': sorted(self.states),
				'log': digest(self.log), 'processes': self.proj.processes, 'sim_time_s': self.proj.sc.clock.elapsed / 1e9}
		finally:
			self.proj.destroy()

	def apply(self, i: int, op: dict[str, Any]) -> None:
		kind = op['op']
		self.bump('ops', kind if kind != 'run' else ('run -f' if op.get('force') else 'run'))
		if kind == 'edit':
			before = self.proj.state[op['m']]
			self.proj.set_variant(op['m'], op['v'], op.get('dt', 10**9))
			self.changed |= before != self.proj.state[op['m']]
			self.kinds_seq.append('edit')
			self.log.append(['edit', op['m'], self.proj.state[op['m']]])
		elif kind == 'touch':
			self.proj.touch(op['m'], op.get('dt', 10**9))
			self.kinds_seq.append('touch')
			self.log.append(['touch', op['m']])
		elif kind == 'delete-output':
			rel = self.path_of.get(op['m'])
			if rel and self.proj.sc.remove(rel):
				self.changed = True
				self.bump('probes', 'output deleted by the user')
			self.kinds_seq.append('delete-output')
			self.log.append(['delete-output', op['m']])
		elif kind == 'upgrade':
			self.versions = {**self.versions, op['what']: op['to']}
			self.changed = True
			self.kinds_seq.append(f"upgrade-{op['what']}")
			self.log.append(['upgrade', op['what'], op['to']])
		elif kind == 'reconfigure':
			# settings change between runs (the statement speaks of "the current sources and settings")
			self.config = {**self.config, **op['config']}
			self.proj.config = self.config
			self.proj.sc.write_config(self.config)
			self.changed = True
			self.bump('probes', 'output settings changed between runs')
			self.kinds_seq.append('reconfigure')
			self.log.append(['reconfigure', op['config']])
		elif kind == 'run':
			self.do_run(i, op)
		else:
			raise ValueError(kind)

	# -- one judged run

	def run(self, force: bool, fault: dict[str, Any] | None = None, observe: Any = None) -> dict[str, Any]:
		return self.proj.run(force=force, fault=fault, modules=None if self.use_globs else self.order, use_config_globs=self.use_globs, versions=self.versions or None, observe=observe)

	def module_state_abstraction(self, pre_out: dict[str, str], out_b: dict[str, str]) -> str:
		parts = []
		for m in sorted(self.proj.state):
			rel = self.path_of.get(m)
			if not rel or rel not in pre_out:
				parts.append('absent')
				continue
			hb, hp = header_of(out_b.get(rel)), header_of(pre_out[rel])
			if hp is None:
				parts.append('no-header')
			elif hp != hb:
				parts.append('stale-version' if (hp.get('module') == (hb or {}).get('module')) else 'stale-own-source')
			elif pre_out[rel] != out_b.get(rel):
				parts.append('stale-dependency')
			else:
				parts.append('current')
		return ','.join(parts)

	def do_run(self, i: int, op: dict[str, Any]) -> None:
		sc = self.proj.sc
		force = bool(op.get('force'))
		# Symbols files that are stale through a transitive dependency are C05's known finding; a healthy cache is this check's premise,
		# so they are removed before the run (otherwise text written from stale symbols by an earlier run would be blamed on the header logic).
		for rel in stale_transitive_files(self.pool, self.proj.state, self.cache_written, self.proj.cache_files()):
			sc.remove(rel)
			self.cache_written.pop(rel, None)
			self.bump('probes', 'removed a symbols file stale through a transitive dependency (C05 finding)')
		pre = sc.snapshot()
		pre_out = self.proj.outputs()
		# (b) the forced run from the same snapshot: the oracle
		rec_b = self.run(True, observe=observe_headers)
		out_b = self.proj.outputs()
		post_b_trace = rec_b.get('trace', [])
		sc.restore(pre)
		if rec_b['status'] != 'ok':
			# invalid sources: the non-forced run must not succeed in writing something a forced run cannot
			rec_a = self.run(force)
			self.bump('probes', 'forced oracle fails (invalid variant)')
			self.kinds_seq.append('run!')
			self.log.append(['run', force, rec_a['status'], 'oracle-failed'])
			return
		written_b = sorted({ev[1] for ev in post_b_trace if ev[0] == 'open-w' and ev[1].startswith('out')})
		# injectivity + header names its module
		by_module: dict[str, str] = {}
		for rel in written_b:
			h = header_of(out_b.get(rel))
			if h is None:
				self.violation('output-without-header', i, {'file': rel}, sig='header')
				continue
			by_module.setdefault(h['module']['path'], rel)
		if len(written_b) != len(set(self.order)) or sorted(by_module) != sorted(set(self.order)):
			self.violation('output-paths-not-injective', i, {'written': written_b, 'modules': sorted(set(self.order)), 'headers': sorted(by_module)}, sig='paths')
		self.path_of.update(by_module)
		# header round trip (observed inside the oracle process)
		seen_headers = (rec_b.get('result') or {}).get('observed') or {}
		for rel in written_b:
			mine = header_of(out_b.get(rel))
			theirs = seen_headers.get(rel)
			if mine != theirs:
				self.violation('header-round-trip', i, {'file': rel, 'rendered': mine, 'read_back': theirs}, sig='roundtrip')
		self.states.add(self.module_state_abstraction(pre_out, out_b) + f'|force={force}')
		# expected write set of (a) by the header rule
		needs = sorted(rel for m, rel in by_module.items() if force or rel not in pre_out or header_of(pre_out[rel]) != header_of(out_b[rel]))
		# (a) the run itself, possibly with a writer fault
		spec = op.get('fault')
		rec_a = self.run(force)
		fault = None
		if spec:
			fault = resolve_fault(rec_a.get('trace', []), {**spec, 'scope': 'out'}) if rec_a['status'] == 'ok' else None
			if fault is None:
				self.bump('probes', 'fault not placed (run writes nothing)')
			else:
				self.judge(i, op, force, rec_a, pre_out, out_b, by_module, needs, None)
				sc.restore(pre)
				rec_a = self.run(force, fault=fault)
				for k in rec_a.get('fault_fired', []):
					self.bump('faults_fired', f"{k}x{fault.get('count', 1)}")
		self.judge(i, op, force, rec_a, pre_out, out_b, by_module, needs, fault)
		account_cache_writes(self.cache_written, rec_a.get('trace', []), self.proj.state, set(self.proj.cache_files()))
		self.kinds_seq.append(('run -f' if force else 'run') + (f"+eacces{fault.get('count', 1)}" if fault else ''))
		if self.changed:
			self.distinct.add('>'.join(self.kinds_seq))
		self.changed = False

	def judge(self, i: int, op: dict[str, Any], force: bool, rec_a: dict[str, Any], pre_out: dict[str, str], out_b: dict[str, str], by_module: dict[str, str], needs: list[str], fault: dict[str, Any] | None) -> None:
		out_a = self.proj.outputs()
		trace = rec_a.get('trace', [])
		self.log.append(['run', force, fault.get('count') if fault else None, rec_a['status'], digest(out_a), canon_trace(trace, self.hex_table)])
		self.bump('run_outcomes', ('faulted:' if fault else 'clean:') + rec_a['status'])
		if rec_a['status'] == 'timeout':
			self.violation('run-does-not-terminate', i, {}, sig='timeout')
			return
		if any(ev[0] == 'sleep' for ev in trace):
			self.bump('probes', 'Writer retry path taken (virtual sleep)')
		killed = bool(fault and fault['kind'].startswith('crash@') and rec_a['status'] == 'crashed')
		expect_fail = killed or bool(fault and int(fault.get('count', 1)) >= 2 and rec_a.get('fault_fired'))
		if rec_a['status'] != 'ok':
			if expect_fail:
				self.bump('probes', 'run killed at a file-operation boundary of the writer' if killed else 'run aborted by a persistent write fault')
				# progress once faults stop: one more fault-free run converges to the forced result
				rec_c = self.run(force)
				out_c = self.proj.outputs()
				bad = [m for m, rel in by_module.items() if out_c.get(rel) != out_b.get(rel)]
				if rec_c['status'] != 'ok' or bad:
					self.known_or_violation('no-convergence-after-fault', i, {'status': rec_c['status'], 'modules': bad[:4]}, by_module, out_b, force)
				self.account_written(rec_c)
				return
			self.violation('run-fails-forced-succeeds', i, {'error': rec_a.get('error'), 'fault': fault}, sig=(rec_a.get('error') or {}).get('cls', ''))
			return
		if fault and int(fault.get('count', 1)) == 1 and rec_a.get('fault_fired'):
			self.bump('probes', 'single EACCES absorbed by the retry')
		# write log: exactly the outputs whose header differs or that were missing
		written_a = sorted({ev[1] for ev in trace if ev[0] == 'open-w' and ev[1].startswith('out')})
		extra = sorted(set(written_a) - set(needs))
		missing = sorted(set(needs) - set(written_a))
		if not needs:
			self.bump('probes', 'nothing to regenerate: all headers current')
		if len(needs) < len(by_module) and not force:
			self.bump('probes', 'header equal -> module skipped')
		if extra:
			self.violation('untouched-file-rewritten', i, {'files': extra, 'expected': needs}, sig='extra')
		if missing:
			self.violation('header-differs-but-not-regenerated', i, {'files': missing, 'written': written_a}, sig='missing')
		stale = sorted(m for m, rel in by_module.items() if out_a.get(rel) != out_b.get(rel))
		if stale:
			self.known_or_violation('output-differs-from-forced-run', i, {'modules': stale, 'diff': first_line_diff(out_a.get(by_module[stale[0]]), out_b.get(by_module[stale[0]]))}, by_module, out_b, force)
		else:
			self.bump('probes', 'outputs == forced run')
		self.account_written(rec_a)

	def account_written(self, rec: dict[str, Any]) -> None:
		account_cache_writes(self.cache_written, rec.get('trace', []), self.proj.state, set(self.proj.cache_files()))
		# per output FILE (settings may change: the same module can have been written to several places at different times)
		for ev in rec.get('trace', []):
			if ev[0] == 'open-w' and ev[1].startswith('out'):
				self.out_written[ev[1]] = {'state': dict(self.proj.state), 'versions': dict(self.versions)}

	def dependency_stale_outputs(self, by_module: dict[str, str]) -> list[str]:
		"""Signature of C06/dependency-edit-not-regenerated: current output files whose module's own source and the versions are unchanged
		since the file was written while a module of that module's import closure changed content."""
		out = []
		state = self.proj.state
		for m, rel in by_module.items():
			w = self.out_written.get(rel)
			if w is None or m not in state or w['versions'] != self.versions or w['state'].get(m) != state[m]:
				continue
			changed = {x for x in state if w['state'].get(x) != state[x]}
			then_state = {**state, **{k: v for k, v in w['state'].items() if k in state}}
			closure = pools.import_closure(self.pool, state, m) | pools.import_closure(self.pool, then_state, m)
			if changed & closure:
				out.append(m)
		return sorted(out)

	def known_or_violation(self, vclass: str, i: int, detail: dict[str, Any], by_module: dict[str, str], out_b: dict[str, str], force: bool) -> None:
		known = None
		if KF_DEP in self.known_ids and not force:
			comp = self.dependency_stale_outputs(by_module)
			if comp:
				post = self.proj.sc.snapshot()
				for m in comp:
					rel = by_module.get(m)
					if rel:
						self.proj.sc.remove(rel)
				rec = self.run(False)
				out_c = self.proj.outputs()
				if rec['status'] == 'ok' and all(out_c.get(rel) == out_b.get(rel) for rel in by_module.values()):
					known = KF_DEP
				detail = {**detail, 'compensated_outputs': comp}
				self.proj.sc.restore(post)
		self.violation(vclass, i, detail, known=known, sig=vclass)


def first_line_diff(a: str | None, b: str | None) -> dict[str, Any]:
	la, lb = (a or '<absent>').split('\n'), (b or '<absent>').split('\n')
	for n, (x, y) in enumerate(zip(la, lb)):
		if x != y:
			return {'line': n + 1, 'have': x[:160], 'forced': y[:160]}
	return {'have_lines': len(la), 'forced_lines': len(lb)}


OUTPUT_FORMS = [
	lambda dirs: ['./out/fb'],
	lambda dirs: [f'{dirs[0]}/*:out/g1', './out/fb'],
	lambda dirs: [f'{dirs[0]}/:out/p1', './out/fb'],
	lambda dirs: [f'{dirs[0]}/:out/p1'] + ([f'{dirs[1]}/*:out/g2'] if len(dirs) > 1 else []) + ['./out/fb'],
	lambda dirs: [f'{d}/:out/p{n}' for n, d in enumerate(dirs)] + ['./out/fb'],
	lambda dirs: [f'{d}/*:out/g{n}' for n, d in enumerate(dirs)] + ['./out/fb'],
]


TWIN_SRC = ['def helper(k: int) -> int:\n\treturn k + 1\n', 'def helper(k: int) -> int:\n\tn = k + 2\n\treturn n\n']


def add_twins(pool: dict[str, Any], rng: random.Random) -> None:
	"""Two modules with byte-identical sources in different source directories (same base name)."""
	dirs = sorted({m.rsplit('.', 1)[0] for m in pool['modules']} | {'src', 'pkg'})
	a, b = rng.sample(dirs, 2)
	for m in (f'{a}.util', f'{b}.util'):
		if m not in pool['variants']:
			pool['modules'].append(m)
			pool['variants'][m] = [{'src': src, 'imports': [], 'note': f'twin{n}'} for n, src in enumerate(TWIN_SRC)]


def reconfiguration(dirs: list[str], rng: random.Random) -> dict[str, Any]:
	"""A new output mapping that re-uses the same few output directories for other source directories (rules stay injective at any one time)."""
	outs = ['out/p0', 'out/p1', 'out/g0', 'out/g1']
	rng.shuffle(outs)
	picked = rng.sample(dirs, rng.randint(1, min(len(dirs), 3)))
	rules = []
	for d, o in zip(picked, outs):
		rules.append(f'{d}/:{o}' if o.startswith('out/p') else f'{d}/*:{o}')
	cfg: dict[str, Any] = {'output_dirs': rules + ['./out/fb']}
	if rng.random() < 0.3:
		cfg['output_language'] = rng.choice(['cpp:h', 'cpp', 'cpp:hpp'])
	return cfg


def source_dirs(pool: dict[str, Any]) -> list[str]:
	dirs = sorted({m.rsplit('.', 1)[0].replace('.', '/') for m in pool['modules']}, key=lambda d: (-len(d), d))
	return dirs


def run_op(force: bool = False, fault: dict[str, Any] | None = None) -> dict[str, Any]:
	op: dict[str, Any] = {'op': 'run', 'force': force}
	if fault:
		op['fault'] = fault
	return op


class C06(Engine):
	prop = 'C06'
	rule = ('case = one history (edit / run / run -f / delete-output / upgrade / touch, writer faults EACCES x1 or x2, kill between two file operations of the writer) over a generated pool with a drawn output_dirs '
		'mapping and output_language; at every run the same snapshot is also run forced and the two file sets, the write log (exactly the outputs whose stored header differs or '
		'that are missing), header read-back and path injectivity are compared. distinct_nontrivial = distinct op-kind sequences with a state change (content edit, deleted output, '
		'version upgrade) between two judged runs')
	quick_runs = 60
	thorough_runs = 2000
	quick_budget_s = 120.0
	thorough_budget_s = 1700.0
	components_real = ['Runner.can_transpile/try_load_meta_header/output_filepath/fetch_output_path', 'MetaHeader', 'module_meta_factory', 'Writer (incl. PermissionError retry)', 'Py2Cpp entrypoint header rendering', 'the whole pipeline behind them with a healthy cache']
	components_stubbed = Engine.components_stubbed + ['builtins.open interposed (trace; injected EACCES on output files)', 'time.sleep virtual', 'Versions.app / Versions.py2cpp patched in the child to model a tool upgrade']
	assumptions = ['output_dirs rules use distinct, non-nested output directories (the intended mapping is injective); which directory a rule selects is not judged',
		'cache enabled and healthy (cache faults are C05); both the judged run and its forced oracle start from the same cache snapshot',
		'crashes while writing outputs are outside the quantifier']

	def canonical_cases(self) -> list[dict[str, Any]]:
		cases: list[dict[str, Any]] = []
		for which in (0, 1):
			pool = pools.fixed_pool(which)
			mods = pools.core(pool)
			top, leaf = mods[0], mods[-1]
			mid = mods[1]
			dirs = source_dirs(pool)
			for cfg in ({'output_dirs': ['./out/fb']}, {'output_dirs': OUTPUT_FORMS[4](dirs), 'output_language': 'cpp'}):
				def c(ops: list[dict[str, Any]]) -> None:
					cases.append({'pool': pool, 'ops': ops, 'config': cfg, 'kind': 'canonical'})
				c([run_op(), run_op()])
				c([run_op(), {'op': 'edit', 'm': top, 'v': 1}, run_op()])
				c([run_op(), {'op': 'edit', 'm': leaf, 'v': 1}, run_op()])
				c([run_op(), {'op': 'edit', 'm': mid, 'v': 1}, run_op(), run_op(True), run_op()])
				c([run_op(), {'op': 'delete-output', 'm': mid}, run_op()])
				c([run_op(), {'op': 'upgrade', 'what': 'app', 'to': '1.0.1'}, run_op()])
				c([run_op(), {'op': 'upgrade', 'what': 'py2cpp', 'to': '1.1.0'}, run_op()])
				c([run_op(), {'op': 'touch', 'm': top}, run_op()])
				c([run_op(fault={'kind': 'eacces@open', 'pick': 0.5, 'count': 1}), run_op()])
				c([run_op(fault={'kind': 'eacces@open', 'pick': 0.5, 'count': 2}), run_op()])
				c([run_op(True), {'op': 'edit', 'm': top, 'v': 2}, run_op(fault={'kind': 'eacces@open', 'pick': 0.0, 'count': 2}), run_op()])
				# a transient lock on an existing output while its module shrinks (long -> short text) and while it grows
				c([run_op(), {'op': 'edit', 'm': top, 'v': 2}, run_op(), {'op': 'edit', 'm': top, 'v': 0}, run_op(fault={'kind': 'eacces@open', 'pick': 0.0, 'count': 1}), run_op()])
				c([run_op(), {'op': 'edit', 'm': leaf, 'v': 2}, run_op(fault={'kind': 'eacces@open', 'pick': 0.0, 'count': 1}), {'op': 'edit', 'm': leaf, 'v': 1}, run_op(fault={'kind': 'eacces@open', 'pick': 0.0, 'count': 1}), run_op()])
				# the process is killed between two file operations of the writer (never inside one): after the truncating open, right after the
				# complete write, after the close -- while an output shrinks / grows; the next fault-free run must converge to the forced result
				for kill in ({'kind': 'crash@open', 'pick': 0.0}, {'kind': 'crash@write', 'kmode': 'full', 'pick': 0.0}, {'kind': 'crash@between-files', 'pick': 0.0}):
					c([run_op(), {'op': 'edit', 'm': top, 'v': 2}, run_op(), {'op': 'edit', 'm': top, 'v': 0}, run_op(fault=kill), run_op()])
				c([run_op(), {'op': 'edit', 'm': leaf, 'v': 2}, run_op(True, fault={'kind': 'crash@write', 'kmode': 'full', 'pick': 0.6}), run_op()])
		# a target whose dotted path is a substring of an earlier target's path (src.a after src.ab / src.a_b): each header must record its own module
		rngs = random.Random(6)
		sub = pools.gen_pool(rngs, shape='pairs', n_variants=3, allow_invalid=False, names=['src.ab', 'src.a_b', 'src.a', 'src.d'], swap_p=0.0, box_p=0.0)
		for order in (['src.ab', 'src.a_b', 'src.a', 'src.d'], ['src.d', 'src.a', 'src.a_b', 'src.ab']):
			cases.append({'pool': sub, 'config': {'output_dirs': ['./out/fb']}, 'order': order, 'kind': 'canonical', 'ops': [run_op(), {'op': 'edit', 'm': 'src.a', 'v': 1}, run_op(), {'op': 'edit', 'm': 'src.ab', 'v': 1}, run_op(), {'op': 'edit', 'm': 'src.a', 'v': 2, 'dt': 1000}, run_op()]})
		# glob stratum: targets listed by the real include_module_paths, with an overlapping glob (same target twice)
		gp = pools.fixed_pool(1)
		tops = sorted({m.split('.')[0] for m in gp['modules']})
		gcfg = {'output_dirs': ['./out/fb'], 'input_globs': [f'{t}/**/*.py' for t in tops] + ['src/*.py']}
		cases.append({'pool': gp, 'config': gcfg, 'glob': True, 'kind': 'canonical', 'ops': [run_op(), run_op(), {'op': 'edit', 'm': pools.core(gp)[-1], 'v': 1}, run_op(), {'op': 'delete-output', 'm': pools.core(gp)[0]}, run_op()]})
		# a prefix rule and module paths that repeat the prefix further in (pkg/b.py, pkg/pkg/b.py): outputs must stay distinct
		rng = random.Random(5)
		for shape in ('pairs', 'chain4'):
			pool = pools.gen_pool(rng, shape=shape, n_variants=2, allow_invalid=False, names=['pkg.b', 'pkg.pkg.b', 'src.a', 'src.src.a'])
			cfg = {'output_dirs': ['pkg/:out/p0', 'src/:out/p1', './out/fb']}
			cases.append({'pool': pool, 'config': cfg, 'kind': 'canonical', 'ops': [run_op(), run_op(), {'op': 'edit', 'm': 'pkg.b', 'v': 1}, run_op(), run_op(True), run_op()]})
		for which in (0, 2):
			pool = pools.fixed_pool(which)
			pool['modules'] = pool['modules'] + ['src.util', 'pkg.util']
			for m in ('src.util', 'pkg.util'):
				pool['variants'][m] = [{'src': src, 'imports': [], 'note': f'twin{n}'} for n, src in enumerate(TWIN_SRC)]
			A = {'output_dirs': ['src/:out/p0', './out/fb']}
			B = {'output_dirs': ['pkg/:out/p0', './out/fb']}
			cases.append({'pool': pool, 'config': A, 'kind': 'canonical', 'ops': [run_op(), {'op': 'reconfigure', 'config': B}, run_op(), run_op()]})
			cases.append({'pool': pool, 'config': A, 'kind': 'canonical', 'ops': [run_op(), {'op': 'reconfigure', 'config': {'output_language': 'cpp'}}, run_op(), {'op': 'reconfigure', 'config': {**B, 'output_language': 'cpp:h'}}, run_op()]})
		return cases

	def generate(self, rng: random.Random, index: int) -> dict[str, Any]:
		pool = pools.gen_pool(rng)
		if rng.random() < 0.5:
			add_twins(pool, rng)
		mods = pool['modules']
		dirs = source_dirs(pool)
		cfg = {'output_dirs': rng.choice(OUTPUT_FORMS)(dirs), 'output_language': rng.choice(['cpp:h', 'cpp', 'cpp:hpp'])}
		use_globs = rng.random() < 0.25
		if use_globs:
			tops = sorted({m.split('.')[0] for m in mods})
			globs = [f'{t}/**/*.py' for t in tops]
			if rng.random() < 0.5:
				globs.append(f'{rng.choice(tops)}/*.py')  # overlapping glob: the same target listed twice
			rng.shuffle(globs)
			cfg['input_globs'] = globs
		w_reconf = rng.choice([0, 0.5, 1.2])
		faulty = rng.random() < 0.4
		w = {'edit': rng.uniform(1, 4), 'run': rng.uniform(2, 4), 'runf': rng.uniform(0.2, 1.5), 'del': rng.uniform(0, 1.2), 'up': rng.uniform(0, 0.8), 'touch': rng.uniform(0, 0.6)}
		ops: list[dict[str, Any]] = [run_op(rng.random() < 0.3)]
		vers = {'app': ['1.0.1', '1.1.0', '2.0.0'], 'py2cpp': ['1.0.1', '1.2.0']}
		for _ in range(rng.randint(3, 12)):
			r = rng.choices(['edit', 'run', 'runf', 'del', 'up', 'touch', 'reconf'], weights=[w[k] for k in ('edit', 'run', 'runf', 'del', 'up', 'touch')] + [w_reconf])[0]
			if r == 'reconf':
				ops.append({'op': 'reconfigure', 'config': reconfiguration(dirs, rng)})
				continue
			if r == 'edit':
				m = rng.choice(mods)
				ops.append({'op': 'edit', 'm': m, 'v': rng.randrange(len(pool['variants'][m])), 'dt': rng.choice([1000, 10**9, 3600 * 10**9])})
			elif r in ('run', 'runf'):
				fault = {'kind': 'eacces@open', 'pick': round(rng.random(), 4), 'count': rng.choice([1, 1, 2])} if faulty and rng.random() < 0.4 else None
				if fault and rng.random() < 0.35:
					fault = rng.choice([{'kind': 'crash@open'}, {'kind': 'crash@write', 'kmode': 'full'}, {'kind': 'crash@between-files'}])
					fault['pick'] = round(rng.random(), 4)
				ops.append(run_op(r == 'runf', fault))
			elif r == 'del':
				ops.append({'op': 'delete-output', 'm': rng.choice(mods)})
			elif r == 'up':
				what = rng.choice(['app', 'py2cpp'])
				ops.append({'op': 'upgrade', 'what': what, 'to': rng.choice(vers[what])})
			else:
				ops.append({'op': 'touch', 'm': rng.choice(mods)})
		ops.append(run_op())
		order = list(mods)
		if rng.random() < 0.4:
			rng.shuffle(order)
		return {'pool': pool, 'ops': ops, 'config': cfg, 'order': order, 'kind': 'seeded', 'glob': use_globs}

	def execute(self, case: dict[str, Any]) -> dict[str, Any]:
		return C06Runner(case).execute()

	def minimise(self, case: dict[str, Any], vclass: str) -> dict[str, Any]:
		def fails(ops: list[dict[str, Any]]) -> bool:
			if not any(o['op'] == 'run' for o in ops):
				return False
			res = C06Runner({**case, 'ops': ops}).execute()
			return any(v['class'] == vclass and not v.get('known') for v in res['violations'])
		ops = ddmin(case['ops'], fails, budget=30)
		for i, o in enumerate(ops):
			if o.get('fault'):
				cand = [dict(x) for x in ops]
				cand[i] = {k: v for k, v in o.items() if k != 'fault'}
				if fails(cand):
					ops = cand
		return {**case, 'ops': ops}

	def sample_of(self, case: dict[str, Any]) -> Any:
		return {'shape': case['pool']['shape'], 'modules': case['pool']['modules'], 'config': case.get('config'), 'ops': case['ops']}
