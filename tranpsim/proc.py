"""Simulated tranp process: a forked child with interposed I/O seams, an I/O trace and one planned fault.

The child runs real tranp code against a real directory; only *who decides the bytes, the times and the failures*
is simulated. A crash is os._exit(9) inside the interposed call — no clean-up, as with kill -9.
"""
import builtins
import errno
import faulthandler
import io
import json
import os
import select
import signal
import sys
import time
import traceback
from collections.abc import Callable
from typing import Any

CRASH_EXIT = 9


class Fault(dict):
	"""{'at': trace index, 'kind': ..., 'k': byte offset, 'count': repetitions}"""


class Seams:
	"""Installed in the child only."""

	def __init__(self, root: str, fault: dict[str, Any] | None, report: Callable[[dict[str, Any]], None]) -> None:
		self.root = os.path.realpath(root)
		self.fault = dict(fault) if fault else None
		self.trace: list[list[Any]] = []
		self.fired: list[str] = []
		self.report = report
		self.virtual_sleep = 0.0
		self._open = builtins.open
		self._io_open = io.open
		self._unlink = os.unlink
		self._remove = os.remove
		self._makedirs = os.makedirs
		self._sleep = time.sleep
		self._eacces_left: dict[str, int] = {}

	# -- helpers

	def rel(self, path: Any) -> str | None:
		try:
			p = os.path.abspath(os.fspath(path))
		except TypeError:
			return None
		if p == self.root:
			return '.'
		if p.startswith(self.root + os.sep):
			return p[len(self.root) + 1:]
		return None

	def watched_read(self, rel: str) -> bool:
		return rel.startswith('.cache' + os.sep) or rel.startswith('out' + os.sep) or rel.startswith('out')

	def event(self, *ev: Any) -> int:
		self.trace.append(list(ev))
		return len(self.trace) - 1

	def planned(self, index: int, kinds: tuple[str, ...]) -> dict[str, Any] | None:
		f = self.fault
		if f is not None and f.get('at') == index and f.get('kind') in kinds:
			return f
		return None

	def crash(self, kind: str) -> None:
		self.fired.append(kind)
		self.report({'status': 'crashed', 'fault_fired': self.fired, 'trace': self.trace, 'sleep': self.virtual_sleep})
		os._exit(CRASH_EXIT)

	# -- seams

	def open(self, file: Any, mode: str = 'r', *args: Any, **kwargs: Any) -> Any:
		rel = self.rel(file) if isinstance(file, (str, bytes, os.PathLike)) else None
		if rel is None:
			return self._open(file, mode, *args, **kwargs)
		writing = any(c in mode for c in 'wax+')
		if not writing:
			if self.watched_read(rel):
				self.event('open-r', rel)
			real = self._open(file, mode, *args, **kwargs)
			unbuffered = (args and args[0] == 0) or kwargs.get('buffering') == 0
			if unbuffered and 'b' in mode:
				# a raw file object: each read() is one read(2), which may legally deliver fewer bytes than asked for
				# (buffered readers loop until EOF and absorb that, so only raw readers are wrapped)
				return RawReader(self, real, rel)
			return real
		index = self.event('open-w', rel)
		left = self._eacces_left.get(rel, 0)
		f = self.planned(index, ('eacces@open',))
		if f is not None:
			left = int(f.get('count', 1))
		if left > 0:
			self._eacces_left[rel] = left - 1
			self.fired.append('eacces@open')
			raise PermissionError(errno.EACCES, 'Permission denied (injected)', os.fspath(file))
		real = self._open(file, mode, *args, **kwargs)
		if self.planned(index, ('crash@open',)):
			real.close()
			self.crash('crash@open')
		return TracedWriter(self, real, rel)

	def unlink(self, path: Any, *args: Any, **kwargs: Any) -> None:
		rel = self.rel(path)
		if rel is None:
			return self._unlink(path, *args, **kwargs)
		index = self.event('unlink', rel)
		if self.planned(index, ('eacces@unlink',)):
			self.fired.append('eacces@unlink')
			raise PermissionError(errno.EACCES, 'Permission denied (injected)', os.fspath(path))
		self._unlink(path, *args, **kwargs)
		if self.planned(index, ('crash@after-unlink',)):
			self.crash('crash@after-unlink')

	def makedirs(self, name: Any, *args: Any, **kwargs: Any) -> None:
		rel = self.rel(name)
		if rel is not None:
			self.event('makedirs', rel)
		return self._makedirs(name, *args, **kwargs)

	def sleep(self, secs: float) -> None:
		self.event('sleep', secs)
		self.virtual_sleep += secs

	def install(self) -> None:
		builtins.open = self.open
		os.unlink = self.unlink
		os.remove = self.unlink
		os.makedirs = self.makedirs
		time.sleep = self.sleep


class TracedWriter:
	"""File object handed to tranp for every write-mode open under the scratch root."""

	def __init__(self, seams: Seams, real: Any, rel: str) -> None:
		self._s = seams
		self._f = real
		self._rel = rel
		self._closed = False

	def write(self, data: Any) -> int:
		s = self._s
		if isinstance(data, str):
			payload: Any = data
			n = len(data)
		else:
			payload = bytes(data)
			n = len(payload)
		index = s.event('write', self._rel, n)
		f = s.planned(index, ('crash@write', 'crash@write+zeros', 'enospc@write'))
		if f is None:
			return self._f.write(payload)
		k = int(f.get('k', 0))
		if k < 0:
			k = n + k
		k = max(0, min(k, n))
		self._f.write(payload[:k])
		if f['kind'] == 'crash@write+zeros':
			pad = n - k
			self._f.write(('\0' * pad) if isinstance(payload, str) else (b'\0' * pad))
		self._f.flush()
		if f['kind'] == 'enospc@write':
			s.fired.append('enospc@write')
			raise OSError(errno.ENOSPC, 'No space left on device (injected)')
		self._f.close()
		s.crash(f['kind'])
		return k

	def close(self) -> None:
		if self._closed:
			return
		self._closed = True
		s = self._s
		index = s.event('close', self._rel)
		self._f.close()
		if s.planned(index, ('crash@between-files',)):
			s.crash('crash@between-files')

	def __enter__(self) -> 'TracedWriter':
		return self

	def __exit__(self, *exc: Any) -> None:
		self.close()

	def __getattr__(self, name: str) -> Any:
		return getattr(self._f, name)


class RawReader:
	"""Unbuffered binary reader under the scratch root: read(n) is traced and may be cut short once by a planned fault."""

	def __init__(self, seams: Seams, real: Any, rel: str) -> None:
		self._s = seams
		self._f = real
		self._rel = rel

	def read(self, n: int = -1) -> bytes:
		s = self._s
		index = s.event('read', self._rel, n)
		f = s.planned(index, ('short-read',))
		if f is None or n is None or n < 0:
			return self._f.read(n)
		s.fired.append('short-read')
		return self._f.read(max(1, min(int(f.get('k', n // 2)), n)))

	def __enter__(self) -> 'RawReader':
		return self

	def __exit__(self, *exc: Any) -> None:
		self._f.close()

	def __getattr__(self, name: str) -> Any:
		return getattr(self._f, name)


class ChildResult(dict):
	pass


def describe_exception(e: BaseException) -> dict[str, Any]:
	"""Class chain, innermost rogw frame, message head — what verdicts may look at (never stack text)."""
	chain = []
	cur: BaseException | None = e
	seen = 0
	while cur is not None and seen < 8:
		chain.append(f'{type(cur).__module__}.{type(cur).__qualname__}')
		cur = cur.__cause__ or (cur.__context__ if not cur.__suppress_context__ else None)
		seen += 1
	frames = traceback.extract_tb(e.__traceback__)
	site = ''
	for fr in reversed(frames):
		fn = fr.filename.replace(os.sep, '/')
		if '/rogw/' in fn:
			site = f"rogw/{fn.split('/rogw/', 1)[1]}:{fr.name}"
			break
	mro = [f'{c.__module__}.{c.__qualname__}' for c in type(e).__mro__]
	return {'cls': chain[0], 'chain': chain, 'site': site, 'mro': mro, 'msg': str(e)[:300]}


def sim_process(root: str, task: Callable[['Seams'], Any], fault: dict[str, Any] | None = None, timeout: float = 120.0, capture_stdout: bool = True) -> dict[str, Any]:
	"""Fork a simulated process in `root`, run task(seams) under the seams, return its record.

	Record: {'status': 'ok'|'error'|'crashed'|'timeout'|'died', 'result': ..., 'error': {...}, 'trace': [...], 'stdout': str, 'fault_fired': [...]}
	"""
	rfd, wfd = os.pipe()
	sys.stdout.flush()
	sys.stderr.flush()
	pid = os.fork()
	if pid == 0:
		code = 0
		try:
			os.close(rfd)
			signal.signal(signal.SIGINT, signal.SIG_DFL)
			faulthandler.enable(file=sys.__stderr__)
			faulthandler.dump_traceback_later(timeout + 5, exit=True, file=sys.__stderr__)
			os.chdir(root)
			out = os.fdopen(wfd, 'w')

			def report(doc: dict[str, Any]) -> None:
				if capture_stdout and isinstance(sys.stdout, io.StringIO):
					doc.setdefault('stdout', sys.stdout.getvalue())
				json.dump(doc, out, default=str)
				out.flush()

			seams = Seams(root, fault, report)
			if capture_stdout:
				sys.stdout = io.StringIO()
			seams.install()
			doc: dict[str, Any]
			try:
				result = task(seams)
				doc = {'status': 'ok', 'result': result}
			except BaseException as e:  # noqa: BLE001 — the record says what escaped
				doc = {'status': 'error', 'error': describe_exception(e)}
			doc['trace'] = seams.trace
			doc['fault_fired'] = seams.fired
			doc['sleep'] = seams.virtual_sleep
			report(doc)
		except BaseException:  # harness failure inside the child
			traceback.print_exc(file=sys.__stderr__)
			code = 3
		finally:
			os._exit(code)
	os.close(wfd)
	chunks: list[bytes] = []
	deadline = time.time() + timeout
	timed_out = False
	while True:
		left = deadline - time.time()
		if left <= 0:
			timed_out = True
			break
		r, _, _ = select.select([rfd], [], [], min(left, 1.0))
		if r:
			b = os.read(rfd, 1 << 20)
			if not b:
				break
			chunks.append(b)
	os.close(rfd)
	if timed_out:
		try:
			os.kill(pid, signal.SIGKILL)
		except ProcessLookupError:
			pass
	_, status = os.waitpid(pid, 0)
	if timed_out:
		return {'status': 'timeout', 'trace': [], 'fault_fired': []}
	raw = b''.join(chunks)
	code = os.waitstatus_to_exitcode(status)
	if not raw:
		return {'status': 'died', 'exit': code, 'trace': [], 'fault_fired': []}
	try:
		doc = json.loads(raw)
	except json.JSONDecodeError:
		return {'status': 'died', 'exit': code, 'trace': [], 'fault_fired': [], 'raw': raw[:200].decode('utf-8', 'replace')}
	doc['exit'] = code
	if code == 3:
		doc['status'] = 'died'
	return doc
