"""Importable universe of symbols and factories for di-sim (C19). By-name (dotted) registration resolves into this module.

Every object carries: a global serial, the index of the operation during which it was created, the id of the factory that
made it and the serials of the arguments it was given — so identity is attributable to one creation event."""
from typing import Any, Generic, TypeVar

from rogw.tranp.lang.locator import Locator

T = TypeVar('T')


class Clock:
	serial = 0
	op = -1
	flaky_left: dict[str, int] = {}

	@classmethod
	def reset(cls) -> None:
		cls.serial = 0
		cls.op = -1
		cls.flaky_left = {}


class Obj:
	fid = '?'

	def __init__(self, *deps: Any) -> None:
		Clock.serial += 1
		self.serial = Clock.serial
		self.op = Clock.op
		self.made_by = type(self).fid
		self.deps = [d.serial if isinstance(d, Obj) else repr(d) for d in deps]

	def describe(self) -> dict[str, Any]:
		return {'cls': type(self).__name__, 'serial': self.serial, 'op': self.op, 'by': self.made_by, 'deps': self.deps}


class S0(Obj):
	fid = 'S0'

	def __init__(self) -> None:
		super().__init__()


class S1(Obj):
	fid = 'S1'

	def __init__(self) -> None:
		super().__init__()


class S2(Obj):
	fid = 'S2'

	def __init__(self, a: S0) -> None:
		super().__init__(a)


class S3(Obj):
	fid = 'S3'

	def __init__(self, a: S0, b: S1) -> None:
		super().__init__(a, b)


class S4(Obj):
	fid = 'S4'

	def __init__(self, a: S0, n: int, s: str) -> None:
		super().__init__(a, n, s)


class S5(Obj):
	fid = 'S5'

	def __init__(self, *deps: Any) -> None:
		super().__init__(*deps)


class G0(Obj, Generic[T]):
	fid = 'G0'

	def __init__(self) -> None:
		super().__init__()


class G1(Obj, Generic[T]):
	fid = 'G1'

	def __init__(self, a: S0) -> None:
		super().__init__(a)


def _made(obj: Obj, fid: str) -> Obj:
	obj.made_by = fid
	return obj


def f_s0() -> S0:
	return _made(S0(), 'f_s0')


def f_s1() -> S1:
	return _made(S1(), 'f_s1')


def f_s2(a: S0) -> S2:
	return _made(S2(a), 'f_s2')


def f_s3(a: S0, b: S1) -> S3:
	return _made(S3(a, b), 'f_s3')


def f_s3_opt(a: S0, b: S1 = None) -> S3:  # type: ignore[assignment]
	# an annotated parameter with a default value is a parameter like any other for the container: filled when bound, else it must be passed
	return _made(S3(a, b), 'f_s3_opt')


def f_s4_opt(a: S0, n: int, s: str = 'dflt') -> S4:
	return _made(S4(a, n, s), 'f_s4_opt')


def f_s3_rev(b: S1, a: S0) -> S3:
	o = S3.__new__(S3)
	Obj.__init__(o, b, a)  # dependencies recorded in parameter order
	return _made(o, 'f_s3_rev')


def f_s4(a: S0, n: int, s: str) -> S4:
	return _made(S4(a, n, s), 'f_s4')


def f_s4_plain(n: int, s: str) -> S4:
	o = S4.__new__(S4)
	Obj.__init__(o, n, s)
	return _made(o, 'f_s4_plain')


def f_s5_mixed(a: S0, g: G0[int], n: int) -> S5:
	return _made(S5(a, g, n), 'f_s5_mixed')


def f_loc(locator: Locator) -> S5:
	"""Re-entrant factory: resolves another symbol through the injected locator while being resolved."""
	return _made(S5(locator.resolve(S0)), 'f_loc')


def f_g0() -> G0:
	return _made(G0(), 'f_g0')


def f_g1(a: S0) -> G1:
	return _made(G1(a), 'f_g1')


def f_flaky() -> S1:
	left = Clock.flaky_left.get('f_flaky', 0)
	if left > 0:
		Clock.flaky_left['f_flaky'] = left - 1
		raise RuntimeError('flaky factory (injected failure)')
	return _made(S1(), 'f_flaky')


def f_flaky_v() -> S1:
	# fails with the very exception class the container uses for "not registered" / "arguments do not match"
	left = Clock.flaky_left.get('f_flaky_v', 0)
	if left > 0:
		Clock.flaky_left['f_flaky_v'] = left - 1
		raise ValueError('flaky factory (injected failure)')
	return _made(S1(), 'f_flaky_v')


def f_on_s2(c: S2) -> S5:
	o = S5.__new__(S5)
	Obj.__init__(o, c)
	return _made(o, 'f_on_s2')


def f_flaky2(a: S0) -> S2:
	left = Clock.flaky_left.get('f_flaky2', 0)
	if left > 0:
		Clock.flaky_left['f_flaky2'] = left - 1
		raise RuntimeError('flaky factory (injected failure)')
	return _made(S2(a), 'f_flaky2')


class Left:
	class Item(Obj):
		fid = 'Left.Item'

		def __init__(self) -> None:
			super().__init__()


class Right:
	class Item(Obj):
		fid = 'Right.Item'

		def __init__(self, a: S0) -> None:
			super().__init__(a)


class AlphaProvider:
	def create(self, a: S0) -> S5:
		return _made(S5(a), 'AlphaProvider.create')


class BetaProvider:
	def create(self, a: S0, b: S1, n: int) -> S5:
		return _made(S5(a, b, n), 'BetaProvider.create')


ALPHA = AlphaProvider()
BETA = BetaProvider()


class Maker:
	def make_s0(self) -> S0:
		return _made(S0(), 'Maker.make_s0')

	def make_s2(self, a: S0) -> S2:
		return _made(S2(a), 'Maker.make_s2')


MAKER = Maker()

SYMBOLS = {'Left.Item': Left.Item, 'Right.Item': Right.Item, 'S0': S0, 'S1': S1, 'S2': S2, 'S3': S3, 'S4': S4, 'S5': S5, 'G0': G0, 'G1': G1, 'G0[int]': G0[int], 'G1[str]': G1[str], 'Locator': Locator}
ORIGIN = {'G0[int]': 'G0', 'G1[str]': 'G1'}

# factory id -> (callable, product symbol, leading annotated params (symbol names) in order, plain params (python types) in order)
FACTORIES: dict[str, tuple[Any, str, list[str], list[type]]] = {
	'S0': (S0, 'S0', [], []),
	'S1': (S1, 'S1', [], []),
	'S2': (S2, 'S2', ['S0'], []),
	'S3': (S3, 'S3', ['S0', 'S1'], []),
	'f_s0': (f_s0, 'S0', [], []),
	'f_s1': (f_s1, 'S1', [], []),
	'f_s2': (f_s2, 'S2', ['S0'], []),
	'f_s3': (f_s3, 'S3', ['S0', 'S1'], []),
	'f_s3_rev': (f_s3_rev, 'S3', ['S1', 'S0'], []),
	'f_s3_opt': (f_s3_opt, 'S3', ['S0', 'S1'], []),
	'f_s4_opt': (f_s4_opt, 'S4', ['S0'], [int, str]),
	'f_s4': (f_s4, 'S4', ['S0'], [int, str]),
	'f_s4_plain': (f_s4_plain, 'S4', [], [int, str]),
	'f_s5_mixed': (f_s5_mixed, 'S5', ['S0', 'G0'], [int]),
	'f_loc': (f_loc, 'S5', ['Locator'], []),
	'f_g0': (f_g0, 'G0', [], []),
	'f_g1': (f_g1, 'G1', ['S0'], []),
	'f_flaky': (f_flaky, 'S1', [], []),
	'f_flaky2': (f_flaky2, 'S2', ['S0'], []),
	'f_flaky_v': (f_flaky_v, 'S1', [], []),
	'f_on_s2': (f_on_s2, 'S5', ['S2'], []),
	'Left.Item': (Left.Item, 'Left.Item', [], []),
	'Right.Item': (Right.Item, 'Right.Item', ['S0'], []),
	'AlphaProvider.create': (ALPHA.create, 'S5', ['S0'], []),
	'BetaProvider.create': (BETA.create, 'S5', ['S0', 'S1'], [int]),
	'Maker.make_s0': (MAKER.make_s0, 'S0', [], []),
	'Maker.make_s2': (MAKER.make_s2, 'S2', ['S0'], []),
}

FLAKY_ERR = {'f_flaky': 'RuntimeError', 'f_flaky2': 'RuntimeError', 'f_flaky_v': 'ValueError'}

# factories usable as a *binding* for a symbol (no plain parameters)
BINDABLE: dict[str, list[str]] = {}
for _fid, (_f, _prod, _lead, _plain) in FACTORIES.items():
	if not _plain:
		BINDABLE.setdefault(_prod, []).append(_fid)

# dotted names for by-name registration
DOTTED = {fid: f'tranpsim.di_universe.{fid}' for fid in FACTORIES if '.' not in fid}
SYMBOL_PATH = {name: f'{cls.__module__}.{cls.__qualname__}' for name, cls in SYMBOLS.items() if name not in ORIGIN and '.' not in name}
