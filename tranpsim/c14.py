"""C14 — exporting and re-importing the symbol table loses nothing.

Two engines: persist-sim (store -> process exit -> restore in the next process) and db-sim (one live table,
seeded export / unload / import / duplicate-import sequences, short reads)."""
import random
from typing import Any

from tranpsim import observers, pools, tasks
from tranpsim.core import ddmin, digest
from tranpsim.framework import Engine
from tranpsim.history import HistoryRunner, module_of_cache_file
from tranpsim.persist import ColdOracle, Project, file_class
from tranpsim.proc import sim_process


def diff_rows(seen: dict[str, Any], want: dict[str, Any], limit: int = 3) -> list[dict[str, Any]]:
	out = []
	for key in sorted(set(seen) | set(want)):
		if seen.get(key) != want.get(key):
			out.append({'key': key, 'got': seen.get(key, '<absent>'), 'want': want.get(key, '<absent>')})
			if len(out) >= limit:
				break
	return out


def row_field_diff(d: dict[str, Any]) -> str:
	names = ['type', 'debug-name', 'decl', 'node', 'via', 'class']
	g, w = d['got'], d['want']
	if not isinstance(g, list) or not isinstance(w, list):
		return 'presence'
	return ','.join(n for n, a, b in zip(names, g, w) if a != b) or 'shape'


class C14Runner(HistoryRunner):
	def __init__(self, case: dict[str, Any]) -> None:
		super().__init__(case, observe=observers.observe_symbols())
		self.cold = ColdOracle(self.pool, self.config, enabled=False, observe=observers.observe_symbols())

	def run_once(self, i: int, op: dict[str, Any], fault: dict[str, Any] | None) -> None:
		# Staleness of a stored table after a transitive-dependency edit is C05's subject (known finding there), not the
		# round trip's: such files are removed before the run so that stored and restoring process see the same sources.
		for rel in self.stale_transitive_symbol_files():
			self.proj.sc.remove(rel)
			self.written.pop(rel, None)
			self.bump('probes', 'removed a symbols file that is stale through a transitive dependency (C05 finding)')
		super().run_once(i, op, fault)

	def judge_run(self, ctx: dict[str, Any]) -> None:
		i, rec = ctx['i'], ctx['rec']
		if rec['status'] != 'ok':
			# a run that read stored symbols and fails where the cache-less process succeeds: the imported table is not the exported one
			# (fault-free runs only; lost / stale-transitive files are handled above and in C05)
			restored_any = [ev[1] for ev in rec.get('trace', []) if ev[0] == 'open-r' and file_class(ev[1]) == 'symbols' and module_of_cache_file(ev[1]) and module_of_cache_file(ev[1])[0] in self.proj.state]
			if rec['status'] == 'error' and not ctx['fault'] and restored_any and not (ctx['tainted_before'] & set(restored_any)):
				fresh = self.cold.get(self.proj.state, modules=self.order)
				if fresh['status'] == 'ok':
					self.violation('run-on-restored-symbols-fails-fresh-succeeds', i, {'error': {k: (rec.get('error') or {}).get(k) for k in ('cls', 'site', 'msg')}, 'restored': sorted(restored_any)[:4]}, sig=(rec.get('error') or {}).get('cls', ''))
					return
			self.bump('probes', f"run {rec['status']} (not judged here)")
			return
		seen = (rec.get('result') or {}).get('observed') or {}
		restored = [ev[1] for ev in rec.get('trace', []) if ev[0] == 'open-r' and file_class(ev[1]) == 'symbols']
		restored_mods = sorted({module_of_cache_file(r)[0] for r in restored if module_of_cache_file(r)})
		pool_restored = [m for m in restored_mods if m in self.proj.state]
		if not pool_restored:
			self.bump('probes', 'no pool module restored in this run')
		fresh = self.cold.get(self.proj.state, modules=self.order)
		if fresh['status'] != 'ok':
			self.bump('probes', 'fresh process failed (invalid variant)')
			return
		want = fresh['observed']
		for m in restored_mods:
			self.bump('modules_restored', 'pool' if m in self.proj.state else 'library')
			if m in self.proj.state:
				self.distinct.add(f"{m}:{digest({k: v for k, v in want['rows'].items() if k.startswith(m + '.') or k.startswith(m + '#')})}")
		for d, n in (seen.get('depth_hist') or {}).items():
			self.bump('attr_depth_rows', d, n)
		diffs = diff_rows(seen.get('rows', {}), want['rows'])
		if diffs:
			self.violation('restored-table-differs', i, {'restored_modules': restored_mods, 'diffs': diffs}, sig=row_field_diff(diffs[0]))
		bad_completed = {m: v for m, v in (seen.get('completed') or {}).items() if v != want['completed'].get(m, v)}
		if bad_completed:
			self.violation('completed-flag-differs', i, {'modules': bad_completed}, sig='completed')
		if pool_restored:
			self.changed_since_obs = True


# ---------------------------------------------------------------------------------------------
# db-sim: one live table


def session_task(modules: list[str], ops: list[dict[str, Any]], sources: dict[str, list[str]] | None = None, in_memory: bool = False):
	"""sources: module -> variant texts, for the in-session `edit-reload` op (edit a source, unload the module, load everything again).
	in_memory: the pool modules live only in memory (a source provider override, the way bin/transpile.py and bin/analyze.py supply `__main__`):
	the only kind of module whose source tranp re-reads inside one process (for files the mtime is memoised per process)."""
	def task(seams: Any) -> dict[str, Any]:
		import json
		from rogw.tranp.errors import Errors
		from rogw.tranp.module.modules import Modules
		from rogw.tranp.semantics.reflection.db import SymbolDB
		from rogw.tranp.semantics.reflection.persistent import ISymbolDBPersistor
		from rogw.tranp.semantics.reflection.serialization import IReflectionSerializer
		from rogw.tranp.syntax.ast.entrypoints import Entrypoints
		mem: dict[str, str] = {}
		extra: dict[str, Any] = {}
		if in_memory:
			import os
			from rogw.tranp.lang.locator import Invoker
			from rogw.tranp.lang.module import to_fullyname
			from rogw.tranp.providers.syntax.ast import source_provider
			from rogw.tranp.syntax.ast.parser import SourceProvider
			for x in modules:
				rel = x.replace('.', '/') + '.py'
				with open(rel, 'rb') as f:
					mem[x] = f.read().decode('utf-8')
				os.unlink(rel)
			def provide_factory(invoker: Invoker) -> SourceProvider:
				org = invoker(source_provider)
				return lambda module_path: mem[module_path] if module_path in mem else org(module_path)
			extra[to_fullyname(SourceProvider)] = provide_factory
		app = tasks.make_app(modules, force=True, cache_enabled=False, extra_defs=extra)
		mods = app.resolve(Modules)
		for m in modules:
			mods.load(m)
		db = app.resolve(SymbolDB)
		ser = app.resolve(IReflectionSerializer)
		loaded = [m.path for m in mods.loaded()]
		exports: dict[str, list[bytes]] = {}
		baseline = {m: observers.symbols_dump(db, m) for m in loaded}
		all_before = observers.symbols_dump(db)
		events: list[dict[str, Any]] = []

		def pick(op: dict[str, Any]) -> str:
			return loaded[int(op['pick'] * len(loaded)) % len(loaded)]

		emptied: set[str] = set()
		partial: set[str] = set()
		import time as _time
		for n, op in enumerate(ops):
			kind = op['op']
			m = pick(op)
			ev: dict[str, Any] = {'n': n, 'op': kind, 'm': m}
			t0 = _time.perf_counter()
			try:
				# precondition of the statement: the table holds all the *other* modules — at most one module is away at a time
				if emptied - {m}:
					ev['skipped'] = 'another module is unloaded'
				elif kind == 'export':
					if m in emptied:
						ev['skipped'] = 'module is unloaded'
					else:
						data = db.to_json(ser, for_module_path=m)
						blob = json.dumps(data, separators=(',', ':')).encode('utf-8')
						exports.setdefault(m, []).append(blob)
						ev['keys'] = len(data)
						ev['export_keys_match'] = sorted(data) == sorted(baseline[m])
						# order clause: every key of the same module a row refers to comes earlier in the export
						order_ok = True
						seen_keys: set[str] = set()
						for key, row in data.items():
							refs = list((row.get('attrs') or {}).values())
							if row.get('class') == 'Reflection':
								refs += [row.get('origin'), row.get('via')]
							for r in refs:
								if r and r in data and r not in seen_keys and r != key:
									order_ok = False
									ev.setdefault('order_violations', []).append([key, r])
							seen_keys.add(key)
						ev['order_ok'] = order_ok
				elif kind == 'edit-reload':
					# the session goes on after an edit: source replaced, module (and its importers) unloaded and loaded again; every later
					# export / import is judged against the table of the NEW sources, nothing of the discarded trees may come back
					import os
					srcs = (sources or {}).get(m)
					if not srcs:
						ev['skipped'] = 'not a pool module'
					elif in_memory:
						old_text = mem[m]
						mem[m] = srcs[op['v'] % len(srcs)]
						mods.unload(m)
						try:
							for x in modules:
								mods.load(x)
						except Errors.Error:
							mem[m] = old_text
							mods.unload(m)
							for x in modules:
								mods.load(x)
							ev['skipped'] = 'edited state does not load (rolled back)'
						now_loaded = [x.path for x in mods.loaded()]
						ev['same_modules'] = sorted(now_loaded) == sorted(loaded)
						ev['took_effect'] = observers.symbols_dump(db, m) != baseline[m]
						exports.clear()
						baseline = {x: observers.symbols_dump(db, x) for x in loaded}
						all_before = observers.symbols_dump(db)
						ev['variant'] = op['v'] % len(srcs)
					else:
						rel = m.replace('.', '/') + '.py'
						st = os.stat(rel)
						with open(rel, 'rb') as f:
							old_src = f.read()
						def put(data: bytes, k: int) -> None:
							with open(rel, 'wb') as f:
								f.write(data)
							os.utime(rel, ns=(st.st_mtime_ns + 10**9 * k, st.st_mtime_ns + 10**9 * k))
						put(srcs[op['v'] % len(srcs)].encode('utf-8'), 2 * n + 1)
						mods.unload(m)
						try:
							for x in modules:
								mods.load(x)
						except Errors.Error:
							# the edited state does not load (a variant that drops an import others need): put the old text back, load again
							put(old_src, 2 * n + 2)
							mods.unload(m)
							for x in modules:
								mods.load(x)
							ev['skipped'] = 'edited state does not load (rolled back)'
						now_loaded = [x.path for x in mods.loaded()]
						ev['same_modules'] = sorted(now_loaded) == sorted(loaded)
						exports.clear()
						baseline = {x: observers.symbols_dump(db, x) for x in loaded}
						all_before = observers.symbols_dump(db)
						ev['variant'] = op['v'] % len(srcs)
				elif kind in ('db-unload', 'module-unload'):
					if kind == 'db-unload':
						db.unload(m)
					else:
						# what ModuleLoader.unload does for this one module (Modules.unload would cascade to its importers,
						# and the statement is about a table that still holds all the other modules): entrypoint and rows go, so import builds on fresh nodes
						app.resolve(Entrypoints).unload(m)
						db.unload(m)
					emptied.add(m)
					ev['left'] = len(observers.symbols_dump(db, m))
					ev['completed'] = db.completed(m)
				elif kind == 'import-interrupted':
					# the import of a module's rows dies after some of them were taken over (an exception out of the k-th deserialize: a damaged
					# row, a keyboard interrupt, memory); the very same data imported again afterwards must still restore the module completely
					blobs = exports.get(m)
					if not blobs or m not in emptied:
						ev['skipped'] = 'no export yet / module not away'
					else:
						data = json.loads(blobs[-1])
						if len(data) < 3:
							ev['skipped'] = 'fewer than 3 rows'
						else:
							k = max(1, min(len(data) - 1, int(op.get('frac', 0.5) * len(data))))
							class Interrupting:
								def __init__(self, inner: Any, left: int) -> None:
									self.inner, self.left = inner, left
								def serialize(self, symbol: Any) -> Any:
									return self.inner.serialize(symbol)
								def deserialize(self, db_: Any, row: Any) -> Any:
									if self.left <= 0:
										raise RuntimeError('injected: import interrupted')
									self.left -= 1
									return self.inner.deserialize(db_, row)
							try:
								db.import_json(Interrupting(ser, k), data)
								ev['raised'] = False
							except RuntimeError:
								ev['raised'] = True
							ev['rows_taken'] = len(observers.symbols_dump(db, m))
							ev['of'] = len(data)
							partial.add(m)
				elif kind in ('import', 'import-old'):
					blobs = exports.get(m)
					if not blobs:
						ev['skipped'] = 'no export yet'
					else:
						blob = blobs[0] if kind == 'import-old' else blobs[-1]
						before = observers.symbols_dump(db, m)
						ev['was_partial'] = m in partial
						partial.discard(m)
						db.import_json(ser, json.loads(blob))
						emptied.discard(m)
						after = observers.symbols_dump(db, m)
						ev['was_empty'] = len(before) == 0
						ev['idempotent'] = (before == after) if before else None
						ev['equals_baseline'] = after == baseline[m]
						if after != baseline[m]:
							ev['diffs'] = diff_rows(after, baseline[m])
						ev['completed'] = db.completed(m)
				elif kind == 'short-read':
					blobs = exports.get(m)
					module = [x for x in mods.loaded() if x.path == m]
					if not blobs or not module or not module[0].in_storage():
						ev['skipped'] = 'no export / not in storage'
					else:
						blob = blobs[-1]
						k = max(1, min(len(blob) - 1, int(op['frac'] * len(blob))))
						persistor = app.resolve(ISymbolDBPersistor)
						persistor.setting.enabled = True
						path = persistor._gen_filepath(module[0])
						import os
						os.makedirs(os.path.dirname(path), exist_ok=True)
						with open(path, 'wb') as f:
							f.write(blob[:k])
						before = observers.symbols_dump(db, m)
						was_completed = db.completed(m)
						raised = None
						try:
							persistor.restore(module[0], db)
						except Exception as e:
							raised = type(e).__name__
						os.unlink(path)
						persistor.setting.enabled = False
						ev['raised'] = raised
						ev['table_unchanged'] = observers.symbols_dump(db, m) == before and db.completed(m) == was_completed
			except Errors.SymbolNotDefined as e:
				ev['error'] = 'SymbolNotDefined'
				ev['msg'] = str(e)[:200]
			except Exception as e:
				ev['error'] = type(e).__name__
				ev['msg'] = str(e)[:200]
			ev['ms'] = int((_time.perf_counter() - t0) * 1000)
			events.append(ev)
		for m in sorted(emptied):
			pass
		others_ok = True
		all_after = observers.symbols_dump(db)
		return {'events': events, 'emptied': sorted(emptied), 'loaded': loaded, 'sizes': {m: len(baseline[m]) for m in loaded}, 'all_before': digest(all_before), 'all_after': digest(all_after),
			'all_diffs': diff_rows(all_after, all_before) if all_after != all_before else []}
	return task


def judge_session(case: dict[str, Any], rec: dict[str, Any]) -> dict[str, Any]:
	violations: list[dict[str, Any]] = []
	counters: dict[str, dict[str, int]] = {'ops': {}, 'probes': {}, 'faults_fired': {}}
	distinct: set[str] = set()

	def bump(t: str, k: str, n: int = 1) -> None:
		counters[t][k] = counters[t].get(k, 0) + n

	if rec['status'] != 'ok':
		if rec['status'] == 'error':
			violations.append({'class': 'session-raised', 'detail': rec.get('error'), 'known': None, 'sig': (rec.get('error') or {}).get('cls', '')})
		return {'violations': violations, 'counters': counters, 'distinct': [], 'states': [], 'log': digest(rec.get('status')), 'processes': 1, 'sim_time_s': 0.0}
	res = rec['result']
	emptied: set[str] = set()
	kinds: list[str] = []
	for ev in res['events']:
		bump('ops', ev['op'])
		kinds.append(ev['op'])
		if ev.get('skipped'):
			bump('probes', f"skipped: {ev['skipped']}")
			continue
		if ev.get('error'):
			if ev['op'] in ('import', 'import-old'):
				violations.append({'class': 'import-raised', 'detail': ev, 'known': None, 'sig': ev['error']})
			elif ev['op'] == 'export':
				violations.append({'class': 'export-raised', 'detail': ev, 'known': None, 'sig': ev['error']})
			else:
				violations.append({'class': 'op-raised', 'detail': ev, 'known': None, 'sig': ev['error']})
			continue
		if ev['op'] == 'export':
			if not ev['order_ok']:
				violations.append({'class': 'export-order', 'detail': ev, 'known': None, 'sig': 'order'})
			if not ev['export_keys_match']:
				violations.append({'class': 'export-key-set', 'detail': ev, 'known': None, 'sig': 'keys'})
		elif ev['op'] in ('db-unload', 'module-unload'):
			emptied.add(ev['m'])
			if ev['left'] or ev['completed']:
				violations.append({'class': 'unload-leaves-rows', 'detail': ev, 'known': None, 'sig': 'unload'})
		elif ev['op'] in ('import', 'import-old'):
			emptied.discard(ev['m'])
			if ev.get('was_partial'):
				bump('probes', 'import completes a module whose earlier import was interrupted')
				distinct.add(f"partial:{ev['m']}:{'>'.join(kinds[-4:])}")
			elif ev.get('was_empty'):
				bump('probes', 'import into a table holding only the other modules')
				distinct.add(f"{ev['m']}:{res['sizes'].get(ev['m'])}:{'>'.join(kinds[-4:])}")
			else:
				bump('probes', 'duplicate import')
				distinct.add(f"dup:{ev['m']}:{'>'.join(kinds[-4:])}")
				if ev.get('idempotent') is False:
					violations.append({'class': 'duplicate-import-changes-table', 'detail': ev, 'known': None, 'sig': 'dup'})
			if not ev['equals_baseline']:
				d = ev.get('diffs') or [{}]
				violations.append({'class': 'imported-table-differs', 'detail': ev, 'known': None, 'sig': row_field_diff(d[0]) if d[0] else ''})
			if not ev['completed']:
				if res['sizes'].get(ev['m'], 0) == 0:
					# an export without a single key does not name its module: import_json has nothing to mark (the persistor, which knows
					# the module, does: fixed finding C14/restored-empty-module-not-completed)
					bump('probes', 'empty export imported (no key names the module: completion not judged)')
				else:
					violations.append({'class': 'not-completed-after-import', 'detail': ev, 'known': None, 'sig': 'completed'})
		elif ev['op'] == 'import-interrupted':
			bump('faults_fired', 'import interrupted after some rows')
			if not ev.get('raised'):
				violations.append({'class': 'interrupted-import-not-reported', 'detail': ev, 'known': None, 'sig': 'interrupt'})
		elif ev['op'] == 'edit-reload':
			bump('faults_fired', 'schedule: source edited and module reloaded inside the session')
			bump('probes', 'in-session edit changed the table' if ev.get('took_effect') else 'in-session edit left the table as it was')
			if not ev.get('same_modules'):
				violations.append({'class': 'reload-changes-module-set', 'detail': ev, 'known': None, 'sig': 'reload'})
		elif ev['op'] == 'short-read':
			bump('faults_fired', 'short-read(symbols file)')
			if not ev['raised'] or not ev['table_unchanged']:
				violations.append({'class': 'short-read-imported', 'detail': ev, 'known': None, 'sig': 'short'})
	for m, n in res['sizes'].items():
		bump('probes', 'symbols in loaded modules', n)
	if not res.get('emptied') and res['all_diffs']:
		violations.append({'class': 'session-end-table-differs', 'detail': {'diffs': res['all_diffs']}, 'known': None, 'sig': row_field_diff(res['all_diffs'][0])})
	return {'violations': violations, 'counters': counters, 'distinct': sorted(distinct), 'states': [], 'log': digest([{k: v for k, v in e.items() if k != 'ms'} for e in res['events']]), 'processes': 1, 'sim_time_s': 0.0}


def run_session(case: dict[str, Any]) -> dict[str, Any]:
	proj = Project(case['pool'], tag='db')
	try:
		for m, v in (case.get('state') or {}).items():
			proj.set_variant(m, v, 10**9)
		# (variants that drop an import leave their importers without a symbol they use: such states are invalid by construction, not edits)
		sources = {m: [v['src'] for v in vs if '-import' not in v['note']] for m, vs in case['pool']['variants'].items()}
		rec = sim_process(proj.sc.root, session_task(case.get('order') or case['pool']['modules'], case['ops'], sources, bool(case.get('in_memory'))), timeout=240)
		return judge_session(case, rec)
	finally:
		proj.destroy()


class C14(Engine):
	prop = 'C14'
	rule = ('two kinds of case: (a) persist history — every run whose process restored a symbols file is compared, symbol by symbol (type description to full depth, '
		'debug name, decl, node, via, completed), with a cache-less fresh process; (b) db session — seeded export/unload/import/duplicate-import/old-import/short-read '
		'sequences on one live table, import compared with the table before export. distinct_nontrivial = distinct (module, table digest) restored from disk plus distinct '
		'(module, size, op context) imports into a table that held only the other modules')
	quick_runs = 240
	thorough_runs = 6000
	quick_budget_s = 90.0
	thorough_budget_s = 1500.0
	components_real = ['SymbolDB.to_json/import_json/_order_keys/unload', 'ReflectionSerializer', 'SymbolDBPersistor', 'RestoreSymbols/StoreSymbols', 'Entrypoints', 'Modules', 'all preprocessors']
	assumptions = ['encoding shapes are those of the corpus (generated pools + library stubs, nested generics such as dict[str, list[T]] come from the stubs); not a search over programs',
		'nested attrs are compared by type description only (re-imported attrs are re-stacked references; the statement speaks of the type description, declaration and node of the symbol itself)']

	def canonical_cases(self) -> list[dict[str, Any]]:
		cases: list[dict[str, Any]] = []
		run = {'op': 'run'}
		for which in (0, 1):
			pool = pools.fixed_pool(which)
			leaf = pools.core(pool)[-1]
			top = pools.core(pool)[0]
			cases.append({'engine': 'history', 'pool': pool, 'ops': [run, run]})
			cases.append({'engine': 'history', 'pool': pool, 'ops': [run, {'op': 'edit', 'm': top, 'v': 1, 'dt': 10**9}, run, run]})
			cases.append({'engine': 'history', 'pool': pool, 'ops': [run, {'op': 'lose', 'pick': 0.5, 'cls': 'tree'}, run, {'op': 'touch', 'm': leaf, 'dt': 10**9}, run]})
			n = 9  # loaded modules: pool + library; picks below sweep all of them
			ops: list[dict[str, Any]] = []
			for j in range(n):
				p = (j + 0.5) / n
				ops += [{'op': 'export', 'pick': p}, {'op': 'db-unload', 'pick': p}, {'op': 'import', 'pick': p}, {'op': 'import', 'pick': p}]
			cases.append({'engine': 'session', 'pool': pool, 'ops': ops})
			ops = []
			for j in range(n):
				p = (j + 0.5) / n
				ops += [{'op': 'export', 'pick': p}, {'op': 'short-read', 'pick': p, 'frac': 0.5}, {'op': 'module-unload', 'pick': p}, {'op': 'import-old', 'pick': p}]
			cases.append({'engine': 'session', 'pool': pool, 'ops': ops})
		for which in (0, 1):
			pool = pools.fixed_pool(which)
			n = 9
			def round_trip() -> list[dict[str, Any]]:
				out: list[dict[str, Any]] = []
				for j in range(n):
					p = (j + 0.5) / n
					out += [{'op': 'export', 'pick': p}, {'op': 'db-unload' if j % 2 else 'module-unload', 'pick': p}, {'op': 'import', 'pick': p}]
				return out
			ops = round_trip()
			for j in range(n):
				# (picks that land on library modules are skipped by the op itself)
				ops.append({'op': 'edit-reload', 'pick': (j + 0.5) / n, 'v': -1})
			ops += round_trip()
			cases.append({'engine': 'session', 'pool': pool, 'ops': ops, 'in_memory': True})
		for which in (0, 1):
			ops = []
			for j in range(9):
				p = (j + 0.5) / 9
				ops += [{'op': 'export', 'pick': p}, {'op': 'module-unload' if j % 2 else 'db-unload', 'pick': p}, {'op': 'import-interrupted', 'pick': p, 'frac': (0.3, 0.6, 0.9)[j % 3]}, {'op': 'import', 'pick': p}, {'op': 'import', 'pick': p}]
			cases.append({'engine': 'session', 'pool': pools.fixed_pool(which), 'ops': ops})
		# byte-identical modules in two packages (same file stem, same imports: identical Module.identity): each keeps its own stored symbols
		from tranpsim.c06 import TWIN_SRC
		twin = pools.fixed_pool(2)
		twin['modules'] = twin['modules'] + ['src.util', 'pkg.util']
		for m in ('src.util', 'pkg.util'):
			twin['variants'][m] = [{'src': src, 'imports': [], 'note': f'twin{n}'} for n, src in enumerate(TWIN_SRC)]
		cases.append({'engine': 'history', 'pool': twin, 'ops': [run, run, {'op': 'edit', 'm': 'pkg.util', 'v': 1, 'dt': 10**9}, run, {'op': 'edit', 'm': 'src.util', 'v': 1, 'dt': 10**9}, run, run]})
		ops = []
		for j in range(10):
			p = (j + 0.5) / 10
			ops += [{'op': 'export', 'pick': p}, {'op': 'module-unload', 'pick': p}, {'op': 'import', 'pick': p}]
		cases.append({'engine': 'session', 'pool': twin, 'ops': ops})
		# prefix-related sibling modules (src.a / src.ab / src.a_b): taking one module's symbols away must leave the others' alone
		fan = pools.gen_pool(random.Random(9), shape='fan', n_variants=3, allow_invalid=False, names=['src.d', 'src.ab', 'src.a', 'src.a_b'], swap_p=0.0)
		for unload in ('db-unload', 'module-unload'):
			ops = []
			for j in range(10):
				p = (j + 0.5) / 10
				ops += [{'op': 'export', 'pick': p}, {'op': unload, 'pick': p}, {'op': 'import', 'pick': p}, {'op': 'import', 'pick': p}]
			cases.append({'engine': 'session', 'pool': fan, 'ops': ops})
		ex = pools.example_pool()
		cases.append({'engine': 'history', 'pool': ex, 'ops': [run, run, {'op': 'edit', 'm': 'example.json', 'v': 1, 'dt': 10**9}, run, run]})
		ops = []
		for j in range(12):
			p = (j + 0.5) / 12
			ops += [{'op': 'export', 'pick': p}, {'op': 'db-unload' if j % 2 else 'module-unload', 'pick': p}, {'op': 'import', 'pick': p}, {'op': 'import', 'pick': p}]
		cases.append({'engine': 'session', 'pool': ex, 'ops': ops})
		return cases

	def generate(self, rng: random.Random, index: int) -> dict[str, Any]:
		pool = pools.gen_pool(rng, allow_invalid=False)
		mods = pool['modules']
		if index % 3 == 0:
			ops: list[dict[str, Any]] = [{'op': 'run'}]
			for _ in range(rng.randint(2, 5)):
				r = rng.random()
				if r < 0.5:
					m = rng.choice(mods)
					ops.append({'op': 'edit', 'm': m, 'v': rng.randrange(len(pool['variants'][m])), 'dt': 10**9})
				elif r < 0.6:
					ops.append({'op': 'lose', 'pick': round(rng.random(), 4), 'cls': rng.choice(['tree', 'symbols'])})
				else:
					ops.append({'op': 'run'})
			ops += [{'op': 'run'}, {'op': 'run'}]
			return {'engine': 'history', 'pool': pool, 'ops': ops}
		state = {m: rng.randrange(len(pool['variants'][m])) for m in mods}
		# keep the state valid: variants that drop an import can break importers; fall back to variant 0 for those
		for m in mods:
			if '-import' in pool['variants'][m][state[m]]['note']:
				state[m] = 0
		ops = []
		picks = [round(rng.random(), 4) for _ in range(rng.randint(1, 4))]
		w_short = rng.choice([0, 0.1])
		for _ in range(rng.randint(6, 24)):
			p = rng.choice(picks)
			r = rng.random()
			if r < 0.28:
				ops.append({'op': 'export', 'pick': p})
			elif r < 0.42:
				ops.append({'op': 'db-unload', 'pick': p})
			elif r < 0.52:
				ops.append({'op': 'module-unload', 'pick': p})
			elif r < 0.79:
				ops.append({'op': 'import', 'pick': p})
			elif r < 0.82:
				ops.append({'op': 'import-interrupted', 'pick': p, 'frac': round(rng.random(), 3)})
			elif r < 0.85:
				ops.append({'op': 'edit-reload', 'pick': rng.choice(picks + [round(rng.random(), 4)]), 'v': rng.randrange(4)})
			elif r < 0.95 - w_short:
				ops.append({'op': 'import-old', 'pick': p})
			else:
				ops.append({'op': 'short-read', 'pick': p, 'frac': round(rng.random(), 4)})
		order = list(mods)
		rng.shuffle(order)
		return {'engine': 'session', 'pool': pool, 'ops': ops, 'state': state, 'order': order, 'in_memory': any(o['op'] == 'edit-reload' for o in ops) or rng.random() < 0.15}

	def execute(self, case: dict[str, Any]) -> dict[str, Any]:
		if case.get('engine') == 'session':
			return run_session(case)
		return C14Runner(case).execute()

	def minimise(self, case: dict[str, Any], vclass: str) -> dict[str, Any]:
		def fails(ops: list[dict[str, Any]]) -> bool:
			if not ops:
				return False
			res = self.execute({**case, 'ops': ops})
			return any(v['class'] == vclass for v in res['violations'])
		return {**case, 'ops': ddmin(case['ops'], fails, budget=30)}

	def sample_of(self, case: dict[str, Any]) -> Any:
		return {'engine': case.get('engine'), 'shape': case['pool']['shape'], 'modules': case['pool']['modules'], 'ops': case['ops'][:12]}
