"""Workload corpus: seeded generator of small multi-module projects with per-module variants.

The corpus is *not* the searched dimension (that is the schedule and the fault sequence); it exists so that
history effects become visible in output text. Importers contain both consumer kinds found in practice:
`w = v.value` (typed at transpile time) and `u = w` (typed only through the stored symbol of another local).
"""
import random
from typing import Any

SCALARS = {
	'int': ['1', '2', '7'],
	'str': ["'x'", "'yy'"],
	'float': ['1.5', '2.25'],
	'bool': ['True', 'False'],
}

# module names with prefix relations and same leaf names in different packages
NAME_POOL = ['src.a', 'src.ab', 'src.a_b', 'src.b', 'src.ba', 'src.c', 'src.cc', 'src.d', 'pkg.a', 'pkg.b', 'src.sub.a', 'src.sub.c', 'src.src.a', 'pkg.pkg.b', 'pkg.src.c']
CLASS_POOL = ['K', 'Node', 'B', 'Item', 'Box']

SHAPES = {
	# name -> list of edges (importer index -> imported index); index 0 is the top
	'chain3': (3, [(0, 1), (1, 2)]),
	'chain4': (4, [(0, 1), (1, 2), (2, 3)]),
	'diamond': (4, [(0, 1), (0, 2), (1, 3), (2, 3)]),
	'fan': (4, [(0, 1), (0, 2), (0, 3)]),
	'pairs': (4, [(0, 1), (2, 3)]),
	'chain2': (2, [(0, 1)]),
	'vee': (3, [(0, 2), (1, 2)]),
	'chain5': (5, [(0, 1), (1, 2), (2, 3), (3, 4)]),
	'kite': (5, [(0, 1), (0, 2), (1, 3), (2, 3), (3, 4)]),
}


def tag_of(module: str) -> str:
	return module.replace('.', '_')


def build_module(module: str, cls: str, vtype: str, lit: str, deps: list[dict[str, Any]], *, extra_fn: bool = False, extra_field: bool = False, with_enum: bool = False, alias: bool = False, dict_local: bool = False, syntax_error: bool = False, wide: bool = False, doc: bool = False, generic: bool = False, box: bool = False, prelude: bool = False) -> str:
	"""deps: [{'module', 'cls', 'tag', 'deps': [ {'tag','cls'} ... ]}] — what this variant imports."""
	tag = tag_of(module)
	lines: list[str] = []
	if with_enum:
		lines.append('from enum import Enum')
	if generic:
		lines.append('from typing import Generic, TypeVar')
	if box:
		lines.append('from src.gbox import GBox')
	for d in deps:
		name = d['cls']
		if alias and name == cls:
			lines.append(f"from {d['module']} import {name} as {name}_{d['tag']}, make_{d['tag']}" + (f", wide_{d['tag']}, TABLE_{d['tag']}" if d.get('wide') else '') + (f", IntHolder_{d['tag']}, make_tree_{d['tag']}" if d.get('generic') else ''))
		else:
			lines.append(f"from {d['module']} import {name}, make_{d['tag']}" + (f", wide_{d['tag']}, TABLE_{d['tag']}" if d.get('wide') else '') + (f", IntHolder_{d['tag']}, make_tree_{d['tag']}" if d.get('generic') else ''))

	def dep_cls(d: dict[str, Any]) -> str:
		return f"{d['cls']}_{d['tag']}" if alias and d['cls'] == cls else d['cls']

	if lines:
		lines += ['', '']
	if prelude:
		# a class inserted above all others: every later class_def[i] / function_def[i] path now denotes another declaration than in the sibling variants
		lines += [f'class Zero_{tag}:', '\tz: int', '', '\tdef __init__(self) -> None:', '\t\tself.z = 0', '', '']
	if generic:
		# own generic class, concrete subclass reading the inherited template-typed field, quoted forward reference G['L'] to a class declared later
		lines += [f"T_{tag} = TypeVar('T_{tag}')", f"TK_{tag} = TypeVar('TK_{tag}')", f"TV_{tag} = TypeVar('TV_{tag}')", f"TE_{tag} = TypeVar('TE_{tag}')", '', '',
			f'class Holder_{tag}(Generic[T_{tag}]):', f'\tvalue: T_{tag}', '', f'\tdef __init__(self, value: T_{tag}) -> None:', '\t\tself.value = value', '', f'\tdef get(self) -> T_{tag}:', '\t\treturn self.value', '', '',
			f'class IntHolder_{tag}(Holder_{tag}[int]):', '\tcount: int', '', '\tdef __init__(self, value: int) -> None:', '\t\tsuper().__init__(value)', '\t\tself.count = 0', '',
			'\tdef twice(self) -> int:', '\t\treturn self.value + self.value', '', '',
			# the template-typed attribute is declared two levels up from here
			f'class Deep_{tag}(IntHolder_{tag}):', '\tdef thrice(self) -> int:', '\t\treturn self.value + self.count', '', '',
			f'class Tree_{tag}:', '\tn: int', '', '\tdef __init__(self) -> None:', '\t\tself.n = 0', '', f"\tdef first(self) -> 'Holder_{tag}[Leaf_{tag}]':", f'\t\treturn Holder_{tag}(Leaf_{tag}())', '',
			f'\tdef pick(self, key: TK_{tag}, val: TV_{tag}, ext: TE_{tag}) -> TV_{tag}:', '\t\treturn val', '', '',
			f'class Leaf_{tag}:', '\tm: int', '', '\tdef __init__(self) -> None:', '\t\tself.m = 1', '', '',
			f'def make_tree_{tag}() -> Tree_{tag}:', f'\treturn Tree_{tag}()', '', '',
			f'def dup_{tag}(v: T_{tag}) -> tuple[T_{tag}, T_{tag}]:', '\treturn (v, v)', '', '']
	if with_enum:
		lines += [f'class Kind_{tag}(Enum):', '\tA = 0', '\tB = 1', '', '']
	lines.append(f'class {cls}:')
	if doc:
		lines += ['\t"""Holder of one value', '', '\tNote:', f'\t\tspans several lines ({tag})', '\t\tgenerated files start with a line like @tranp.meta: {"version":"0.0.0","module":{"hash":"0","path":"doc.example"},"transpiler":{"version":"0","module":"doc"}}', '\t"""', '']
	lines.append(f'\tvalue: {vtype}')
	lines.append(f'\titems: list[{vtype}]')
	if extra_field:
		lines.append('\textra: int')
	if with_enum:
		lines.append(f'\tkind: Kind_{tag}')
	for d in deps:
		lines.append(f"\td_{d['tag']}: {dep_cls(d)}")
	lines.append('')
	lines.append(f'\tdef __init__(self, value: {vtype}) -> None:')
	lines.append('\t\tself.value = value')
	lines.append('\t\tself.items = [value]')
	if extra_field:
		lines.append('\t\tself.extra = 0')
	if with_enum:
		lines.append(f'\t\tself.kind = Kind_{tag}.A')
	for d in deps:
		lines.append(f"\t\tself.d_{d['tag']} = make_{d['tag']}()")
	lines.append('')
	lines.append(f'\tdef get(self) -> {vtype}:')
	lines.append('\t\treturn self.value')
	lines.append('')
	lines.append('\t@property')
	lines.append(f'\tdef first(self) -> {vtype}:')
	lines.append('\t\treturn self.items[0]')
	for d in deps:
		lines.append('')
		lines.append(f"\tdef via_{d['tag']}(self) -> {dep_cls(d)}:")
		lines.append(f"\t\treturn self.d_{d['tag']}")
	lines += ['', '']
	lines.append(f'def make_{tag}() -> {cls}:')
	if doc:
		lines += ['\t"""Factory', '', '\tReturns:', '\t\ta fresh instance (the @tranp.meta header is not part of it)', '\t"""']
	lines.append(f'\treturn {cls}({lit})')
	if wide:
		lines += ['', '']
		lines.append(f"TABLE_{tag}: dict[str, list[int]] = {{'k': [1]}}")
		lines += ['', '']
		lines.append(f'def limit_{tag}() -> int:')
		lines.append('\treturn 3')
	if wide:
		# >= 11 sibling attributes (two-digit index paths in the stored symbol form) and nested generics below them
		lines += ['', '']
		lines.append(f'def wide_{tag}(p0: int, p1: str, p2: float, p3: list[int], p4: dict[str, int], p5: bool, p6: {cls}, p7: list[str], p8: dict[str, list[int]], p9: float, p10: list[{cls}], p11: {vtype}) -> dict[str, list[{vtype}]]:')
		lines.append('\treturn {p1: [p11]}')
	if extra_fn:
		lines += ['', '']
		lines.append(f'def extra_{tag}(n: int) -> int:')
		lines.append('\treturn n + 1')
	lines += ['', '']
	lines.append(f'def use_{tag}(k: int) -> int:')
	if syntax_error:
		lines.append('\to = make_((')
	lines.append(f'\to = make_{tag}()')
	lines.append('\town = o.value')
	lines.append('\town2 = own')
	lines.append('\tf = o.first')
	lines.append('\tg = f')
	if wide:
		lines.append(f"\twd = wide_{tag}(0, 'a', 1.5, [1], {{'k': 1}}, True, o, ['s'], {{'k': [1]}}, 2.5, [o], own)")
		lines.append('\twd2 = wd')
	if doc:
		# identifiers spelled like the soft keywords: their tokens carry the types MATCH / CASE below the `name` rule
		lines.append('\tmatch = k + 1')
		lines.append('\tcase = match')
		lines.append("\ttxt = '''first")
		lines.append("second line'''")
		lines.append('\ttxt2 = txt')
	if box:
		# a lambda passed to a method of a generic class taking Callable[[T], None]; instantiations differ between modules
		lines.append(f'\tbx = GBox[{vtype}]()')
		lines.append('\tbx.each(lambda e: print(e))')
		# members typed as containers of the class template, read through this module's instantiation (the defining module reads them through T)
		lines.append('\tbi = bx.items')
		lines.append('\tbi2 = bi')
		lines.append('\tbt = bx.table')
		lines.append('\tbt2 = bt')
		# a generic nested directly in itself with the class template inside
		lines.append('\tbr = bx.rows()')
		lines.append('\tbr2 = br')
		lines.append('\tbix = bx.index()')
		lines.append('\tbix2 = bix')
	if generic:
		lines.append(f'\tdp = Deep_{tag}(k)')
		lines.append('\tdv = dp.value')
		lines.append('\tdw = dv')
		lines.append(f'\thh = IntHolder_{tag}(k)')
		lines.append('\thv = hh.value')
		lines.append('\thw = hv')
		lines.append(f'\ttf = make_tree_{tag}().first()')
		lines.append('\tlm = tf.value.m')
		# one type object with nested type arguments at two positions of one symbol's type tree
		lines.append('\ttb: dict[str, list[int]] = {}')
		lines.append('\tboth = (tb, tb)')
		lines.append('\tboth2 = both')
		lines.append('\trows: list[int] = [k]')
		lines.append(f'\tdd2 = dup_{tag}(rows)')
		lines.append('\tdd3 = dd2')
		lines.append(f"\tpk = make_tree_{tag}().pick('k', 1, 2.5)")
	for d in deps:
		t = d['tag']
		if d.get('generic'):
			lines.append(f'\thh_{t} = IntHolder_{t}(k)')
			lines.append(f'\thv_{t} = hh_{t}.value')
			lines.append(f'\thw_{t} = hv_{t}')
			lines.append(f'\thg_{t} = hh_{t}.get()')
			lines.append(f'\ttf_{t} = make_tree_{t}().first()')
			lines.append(f'\tlf_{t} = tf_{t}.value')
			lines.append(f'\tlm_{t} = lf_{t}.m')
		if d.get('wide'):
			lines.append(f"\trw_{t} = TABLE_{t}['k']")
			lines.append(f'\trw2_{t} = rw_{t}')
			lines.append(f"\two_{t} = wide_{t}(0, 'a', 1.5, [1], {{'k': 1}}, True, make_{t}(), ['s'], {{'k': [1]}}, 2.5, [make_{t}()], make_{t}().value)")
			lines.append(f'\two2_{t} = wo_{t}')
		lines.append(f'\tv_{t} = make_{t}()')
		lines.append(f'\tw_{t} = v_{t}.value')
		lines.append(f'\tu_{t} = w_{t}')
		lines.append(f'\tg_{t} = o.via_{t}().get()')
		lines.append(f'\th_{t} = g_{t}')
		for e in d.get('deps', []):
			lines.append(f"\tt_{t}_{e['tag']} = v_{t}.via_{e['tag']}().value")
			lines.append(f"\ts_{t}_{e['tag']} = t_{t}_{e['tag']}")
	lines.append('\txs = [own2]')
	if dict_local:
		lines.append("\ts = 'lit'")
		lines.append('\tdd = {s: own2}')
		lines.append('\tfor key, val in dd.items():')
		lines.append('\t\tprint(key, val)')
	lines.append('\tfor x in xs:')
	lines.append('\t\tprint(x)')
	if dict_local:
		# a node with two list-valued expandable properties (statements, then catches)
		lines.append('\ttry:')
		lines.append('\t\tprint(k)')
		lines.append('\t\tprint(own2)')
		lines.append('\texcept RuntimeError as e:')
		lines.append('\t\traise RuntimeError() from e')
		lines.append('\texcept Exception as e:')
		lines.append('\t\tprint(e)')
	if wide:
		# the last local shadows a module-level function: its record is among the last of the stored table, and without it the name still
		# resolves -- to the function, so the declaration turns into a plain assignment
		lines.append(f"\tlimit_{tag} = 'shadow'")
		lines.append(f'\tprint(limit_{tag})')
	lines.append('\treturn k if k > 0 else len(xs)')
	return '\n'.join(lines) + '\n'


def gen_pool(rng: random.Random, shape: str | None = None, n_variants: int | None = None, allow_invalid: bool = True, wide_p: float = 0.4, doc_p: float = 0.4, generic_p: float = 0.35, names: list[str] | None = None, box_p: float = 0.35, swap_p: float = 0.2, odd_p: float = 0.3) -> dict[str, Any]:
	"""Returns {'shape', 'modules': [names, index 0 = top], 'variants': {name: [ {src, imports, note} ]}, 'order': names}."""
	shape = shape or rng.choice(sorted(SHAPES))
	n, edges = SHAPES[shape]
	names = list(names) if names else rng.sample(NAME_POOL, n)
	same_cls = rng.random() < 0.3
	classes = [rng.choice(CLASS_POOL) if not same_cls else 'B' for _ in range(n)]
	if not same_cls:
		# distinct class names unless aliasing is exercised
		classes = rng.sample(CLASS_POOL, n) if n <= len(CLASS_POOL) else classes
	alias = same_cls
	use_box = rng.random() < box_p
	flags = [{'with_enum': rng.random() < 0.35, 'dict_local': rng.random() < 0.4, 'wide': rng.random() < wide_p, 'doc': rng.random() < doc_p, 'generic': rng.random() < generic_p, 'box': use_box and (box_p >= 1.0 or rng.random() < 0.6)} for _ in range(n)]
	deps_of = {i: [j for (a, j) in edges if a == i] for i in range(n)}

	def dep_specs(i: int, dropped: set[int] = frozenset()) -> list[dict[str, Any]]:
		out = []
		for j in deps_of[i]:
			if j in dropped:
				continue
			out.append({'module': names[j], 'cls': classes[j], 'tag': tag_of(names[j]), 'wide': flags[j]['wide'], 'generic': flags[j]['generic'], 'deps': [{'tag': tag_of(names[e]), 'cls': classes[e]} for e in deps_of[j]]})
		return out

	variants: dict[str, list[dict[str, Any]]] = {}
	for i in range(n):
		k = n_variants or rng.randint(2, 4)
		vs: list[dict[str, Any]] = []
		types = rng.sample(sorted(SCALARS), min(k, len(SCALARS)))
		for v in range(k):
			vtype = types[v % len(types)]
			lit = rng.choice(SCALARS[vtype])
			kw = dict(flags[i])
			note = f'T={vtype}'
			dropped: set[int] = set()
			if v > 0 and v == k - 1:
				kw['prelude'] = True
				note += '+prelude'
			if v > 0:
				r = rng.random()
				if r < 0.25:
					kw['extra_fn'] = True
					note += '+fn'
				elif r < 0.45:
					kw['extra_field'] = True
					note += '+field'
				elif r < 0.52 and deps_of[i]:
					dropped = {rng.choice(deps_of[i])}
					note += f'-import({names[next(iter(dropped))]})'
				elif r < 0.56 and allow_invalid:
					kw['syntax_error'] = True
					note += '+syntaxerror'
			src = build_module(names[i], classes[i], vtype, lit, dep_specs(i, dropped), alias=alias, **kw)
			vs.append({'src': src, 'imports': [names[j] for j in deps_of[i] if j not in dropped], 'note': note})
		variants[names[i]] = vs
	pool = {'shape': shape, 'modules': list(names), 'core': list(names), 'variants': variants, 'edges': [[names[a], names[b]] for a, b in edges]}
	if use_box:
		pool['modules'] = pool['modules'] + ['src.gbox']
		pool['variants']['src.gbox'] = [{'src': BOX_SRC, 'imports': [], 'note': 'box'}]
		for i in range(n):
			if flags[i]['box']:
				for v in variants[names[i]]:
					v['imports'] = v['imports'] + ['src.gbox']
				pool['edges'].append([names[i], 'src.gbox'])
	if rng.random() < swap_p:
		add_swap_trio(pool)
	if rng.random() < odd_p:
		add_odd_modules(pool, rng)
	return pool


# standalone modules of unusual but valid shape (no module imports them): empty files, comment / docstring only, numeric and string
# literal forms, textually identical siblings, blank tails, long tokens, non-ASCII text
ODD_TEXTS = [
	'',
	'\n',
	'# only a comment\n',
	'"""Only a docstring"""\n',
	'def odd_nums() -> float:\n\ta = 1e3\n\tb = 0x10\n\tc = -0\n\td = 1_000\n\te = 1.\n\tg = .5\n\treturn a\n',
	'def odd_consts() -> bool:\n\ta = None\n\tb = True\n\tc = False\n\treturn b\n',
	'def odd_strs() -> str:\n\ta = \'\'\n\tb = \' \'\n\tc = \'\\\\\'\n\td = \'q"q\'\n\te = "it\'s"\n\tg = \'\\n\\t\'\n\treturn a\n',
	'def odd_dup(v: int, limits: dict[str, str]) -> int:\n\tt = [0, 0]\n\tu = v + v + v\n\treturn max(v, v)\n',
	'class OddEmpty:\n\tpass\ndef odd_pass() -> None:\n\tpass\n\n\n\n',
	'def odd_long() -> str:\n\treturn \'' + 'x' * 500 + '\'\n',
	'def odd_text() -> str:\n\t# \u30b3\u30e1\u30f3\u30c8\n\ts = \'caf\u00e9 \u2603 \u65e5\u672c\u8a9e\'\n\treturn s\n',
]


def add_odd_modules(pool: dict[str, Any], rng: random.Random) -> None:
	for name in ('src.odd0', 'pkg.odd1'):
		if name in pool['variants']:
			continue
		pool['modules'] = pool['modules'] + [name]
		pool['variants'][name] = [{'src': t, 'imports': [], 'note': 'odd'} for t in rng.sample(ODD_TEXTS, 3)]


def core(pool: dict[str, Any]) -> list[str]:
	"""The generated graph proper (index 0 = top, last = leaf), without the appended helper modules (box, swap trio, twins)."""
	return list(pool.get('core') or pool['modules'])


def module_relpath(module: str) -> str:
	return module.replace('.', '/') + '.py'


def import_closure(pool: dict[str, Any], state: dict[str, int], module: str) -> set[str]:
	"""Modules reachable from `module` through the imports of the *current* variants (module itself excluded)."""
	seen: set[str] = set()
	todo = [module]
	while todo:
		m = todo.pop()
		for d in pool['variants'][m][state[m]]['imports']:
			if d not in seen and d in pool['variants']:
				seen.add(d)
				todo.append(d)
	return seen


def direct_imports(pool: dict[str, Any], state: dict[str, int], module: str) -> list[str]:
	return list(pool['variants'][module][state[module]]['imports'])


BOX_SRC = '''from collections.abc import Callable
from typing import Generic, TypeVar

T = TypeVar('T')


class GBox(Generic[T]):
	items: list[T]
	table: dict[str, list[T]]

	def __init__(self) -> None:
		self.items = []
		self.table = {}

	def each(self, f: Callable[[T], None]) -> None:
		for e in self.items:
			f(e)

	def copied(self) -> list[T]:
		own = self.items
		return own

	def rows(self) -> list[list[T]]:
		return [self.items]

	def index(self) -> dict[str, dict[str, T]]:
		return {}
'''

SWAP_SRC = ['''class X:
	def get(self) -> int:
		return 1


class Y:
	def get(self) -> str:
		return 'y'
''', '''class X:
	def get(self) -> str:
		return 'x'


class Y:
	def get(self) -> int:
		return 2
''', '''class X:
	def get(self) -> float:
		return 1.5


class Y:
	def get(self) -> bool:
		return True
''']

SWAP_USER = '''from src.sb import X
from src.sc import Y


def use_sw(k: int) -> int:
	p = X().get()
	q = Y().get()
	r = p
	s = [q]
	return k
'''


def add_swap_trio(pool: dict[str, Any]) -> None:
	"""Two sibling modules with exchangeable (byte-identical variant lists) contents and an importer of both:
	editing both can permute contents among the files a symbol-cache identity is computed from."""
	pool['modules'] += ['src.sa', 'src.sb', 'src.sc']
	pool['variants']['src.sa'] = [{'src': SWAP_USER, 'imports': ['src.sb', 'src.sc'], 'note': 'swap-user'}]
	for m in ('src.sb', 'src.sc'):
		pool['variants'][m] = [{'src': src, 'imports': [], 'note': f'swap{n}'} for n, src in enumerate(SWAP_SRC)]
	pool['edges'] += [['src.sa', 'src.sb'], ['src.sa', 'src.sc']]
	pool['initial'] = {**pool.get('initial', {}), 'src.sc': 1}


def example_pool() -> dict[str, Any]:
	"""The repository's own example project (example/json.py + example/FW/string.py): real code with shapes the generator lacks
	(decorators, embedded C++ types, class variables, closures, 10 k tree entries, 363 symbols). Sources are read from the working tree."""
	import os
	from tranpsim import boot
	mods = ['example.json', 'example.FW.string']
	variants = {}
	for m in mods:
		with open(os.path.join(boot.REPO, module_relpath(m)), 'rb') as f:
			src = f.read().decode('utf-8')
		imports = ['example.FW.string'] if m == 'example.json' else []
		variants[m] = [{'src': src, 'imports': imports, 'note': 'repo'}, {'src': src + '\n\ndef verif_extra_fn(n: int) -> int:\n\treturn n + 1\n', 'imports': imports, 'note': 'repo+fn'}]
	return {'shape': 'example', 'modules': mods, 'core': list(mods), 'variants': variants, 'edges': [['example.json', 'example.FW.string']]}


FIXED_POOL_SEEDS = [11, 12, 13, 14]


def fixed_pool(which: int = 0) -> dict[str, Any]:
	"""Small deterministic pools for canonical short histories and enumeration passes."""
	shapes = ['chain3', 'diamond', 'chain2', 'vee']
	rng = random.Random(FIXED_POOL_SEEDS[which % 4])
	return gen_pool(rng, shape=shapes[which % 4], n_variants=3, allow_invalid=False, wide_p=1.0 if which % 2 == 0 else 0.5, doc_p=1.0 if which % 2 == 0 else 0.5, generic_p=1.0 if which % 2 == 0 else 0.5, box_p=1.0 if which in (0, 3) else 0.0, swap_p=1.0 if which == 1 else 0.0, odd_p=1.0 if which in (1, 3) else 0.0)
