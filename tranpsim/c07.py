"""C07 — failures are always reported as tranp errors, never internal crashes; the interactive loop survives (session-sim, fault mode).

The injected fault is damaged input arriving at the two input seams (the simulated terminal and the source store), interleaved
with good input; the invariants are containment (ok or Errors.Error), the loop staying alive, recovery and termination."""
import os
import random
import sys
from typing import Any

from tranpsim import pools, tasks
from tranpsim.core import HarnessError, ddmin, digest, known_for
from tranpsim.corpus import texts as corpus
from tranpsim.framework import Engine
from tranpsim.persist import Project, library_seed
from tranpsim.proc import describe_exception, sim_process
from tranpsim.session import _make_interactive, _make_runner, annotate_factories

ALPHABET = ['def', 'class', 'return', 'if', 'else', 'elif', 'for', 'in', 'while', 'lambda', 'import', 'from', 'as', 'pass', 'not', 'and', 'or', 'is', 'None', 'True', 'False',
	'(', ')', '[', ']', '{', '}', ':', ',', '.', '->', '=', '==', '+', '-', '*', '/', '%', '<', '>', '@', "'s'", '"t"', '1', '2.5', 'x', 'y', 'self', 'int', 'str', 'list', '\t', '\n', '\n\t', ' ', '#c', '\\', ';', '**', '//', '|', '&', '~', '^', '!', '$', '?', '`']

_VALID_CACHE: dict[str, Any] = {}


# ---------------------------------------------------------------------------------------------
# corruption of submissions (the injected fault)


def corrupt(text: str, kind: str, rng: random.Random) -> str:
	if not text:
		return text
	lines = text.split('\n')
	pos = rng.randrange(len(text))
	if kind == 'flip':
		c = rng.choice(['\x00', '\x7f', 'é', '§', '\u3042', '(', ')', '"', "'", ':', '\t', ' ', '0', '#', '\\', '@', '=', '\u200b', chr(rng.randrange(33, 127))])
		return text[:pos] + c + text[pos + 1:]
	if kind == 'truncate':
		return text[:pos]
	if kind == 'dup-block':
		a = rng.randrange(len(lines))
		b = min(len(lines), a + rng.randint(1, 3))
		at = rng.randrange(len(lines) + 1)
		return '\n'.join(lines[:at] + lines[a:b] + lines[at:])
	if kind == 'drop-block':
		a = rng.randrange(len(lines))
		b = min(len(lines), a + rng.randint(1, 3))
		return '\n'.join(lines[:a] + lines[b:])
	if kind == 'unbalance':
		c = rng.choice('()[]{}\'"')
		if rng.random() < 0.5:
			return text[:pos] + c + text[pos:]
		idx = [i for i, ch in enumerate(text) if ch in '()[]{}\'"']
		if idx:
			i = rng.choice(idx)
			return text[:i] + text[i + 1:]
		return text[:pos] + c + text[pos:]
	if kind == 'indent':
		i = rng.randrange(len(lines))
		r = rng.random()
		if r < 0.4:
			lines[i] = '\t' + lines[i]
		elif r < 0.8 and lines[i].startswith('\t'):
			lines[i] = lines[i][1:]
		else:
			lines[i] = '  ' + lines[i]
		return '\n'.join(lines)
	if kind == 'soup':
		return ''.join(rng.choice(ALPHABET) + rng.choice(['', ' ', ' ']) for _ in range(rng.randint(1, 40)))
	if kind == 'swap-lines':
		if len(lines) > 1:
			i = rng.randrange(len(lines) - 1)
			lines[i], lines[i + 1] = lines[i + 1], lines[i]
		return '\n'.join(lines)
	if kind == 'token-replace':
		words = text.split(' ')
		i = rng.randrange(len(words))
		words[i] = rng.choice(ALPHABET)
		return ' '.join(words)
	raise ValueError(kind)


def nesting_depth(text: str) -> int:
	"""Deepest syntactic nesting a text asks for: bracket depth, length of call / attribute / operator chains on one line, block depth."""
	best = 0
	for line in text.split('\n'):
		depth = cur = 0
		for ch in line:
			if ch in '([{':
				cur += 1
				depth = max(depth, cur)
			elif ch in ')]}':
				cur = max(0, cur - 1)
		best = max(best, depth, line.count(')('), line.count('.'), line.count(' + '), len(line) - len(line.lstrip('\t')))
	return best


DEEP_LIMIT = 200


def deep_text(rng: random.Random) -> str:
	d = rng.choice([250, 330, 400])
	kind = rng.randrange(5)
	if kind == 0:
		return 'x = ' + '(' * d + '1' + ')' * d
	if kind == 1:
		return 'x = f' + '(1)' * d
	if kind == 2:
		return 'x = a' + '.b' * d
	if kind == 3:
		return 'x = ' + ' + '.join(['1'] * d)
	return 'x = ' + '[' * d + '1' + ']' * d


KF_DEEP = 'C07/recursion-limit-on-deeply-nested-input'

CORRUPTIONS = ['flip', 'truncate', 'dup-block', 'drop-block', 'unbalance', 'indent', 'soup', 'swap-lines', 'token-replace']


def terminal_lines(text: str) -> list[str]:
	"""What the terminal delivers for one pasted text: right-stripped lines, then the empty line that ends the submission."""
	return [ln.rstrip() for ln in text.split('\n')] + ['']


def assemble(lines: list[str]) -> list[str | None]:
	"""Mirror of the terminal protocol (bin/io.py tty + Interactive.run): the texts tranp assembles; None = the loop quits."""
	subs: list[str | None] = []
	cur: list[str] = []
	for ln in lines:
		if not ln:
			subs.append('\n'.join(cur))
			cur = []
		elif ln == 'exit':
			subs.append(None)
			return subs
		else:
			cur.append(ln)
	return subs


# ---------------------------------------------------------------------------------------------
# tasks in the simulated process


class Feeder:
	def __init__(self, lines: list[str]) -> None:
		self.lines = lines
		self.pos = 0
		self.marks: list[int] = []
		self.at_start = True
		self.exhausted = 0

	def readline(self, prompt: str = '') -> str:
		if self.at_start:
			self.marks.append(sys.stdout.tell())
			self.at_start = False
		if self.pos >= len(self.lines):
			self.exhausted += 1
			return 'exit'
		ln = self.lines[self.pos]
		self.pos += 1
		if not ln:
			self.at_start = True
		return ln


def loop_task(modules: list[str], lines: list[str], cache_enabled: bool | None):
	def task(seams: Any) -> dict[str, Any]:
		import rogw.tranp.bin.io as tio
		annotate_factories()
		feeder = Feeder(lines)
		tio.readline = feeder.readline
		import rogw.tranp.bin.transpile as tmod
		renders: list[tuple[int, str]] = []

		class RecordingRender(tmod.ErrorRender):
			"""Observes which errors the loop renders (independent of the wording of prompts and separators)."""

			def __init__(self, e: Exception) -> None:
				super().__init__(e)
				renders.append((len(feeder.marks) - 1, f'{type(e).__module__}.{type(e).__qualname__}'))
		tmod.ErrorRender = RecordingRender
		app = tasks.make_app(modules, force=True, cache_enabled=cache_enabled)
		inter = app.run(_make_interactive)
		escaped = None
		try:
			inter.run()
		except BaseException as e:  # noqa: BLE001
			escaped = describe_exception(e)
			escaped['is_tranp_error'] = 'rogw.tranp.errors.Errors.Error' in escaped['mro']
		out = sys.stdout.getvalue()
		marks = feeder.marks + [len(out)]
		prompt = out[:marks[0]] if feeder.marks else ''
		segments = [out[marks[i]:marks[i + 1]] for i in range(len(marks) - 1)]
		records = []
		for k, seg in enumerate(segments):
			body = seg
			if prompt and body.endswith(prompt):
				body = body[:-len(prompt)]
			if body.endswith('Quit\n'):
				body = body[:-len('Quit\n')]
			heads = [cls for n, cls in renders if n == k]
			if heads:
				records.append({'status': 'error', 'render_head': heads[-1], 'renders': len(heads)})
			elif body.strip():
				records.append({'status': 'ok', 'text': body})
			else:
				records.append({'status': 'silent'})
		return {'records': records, 'escaped': escaped, 'consumed': feeder.pos, 'exhausted': feeder.exhausted, 'quit_count': out.count('Quit\n'), 'tail': out[-200:]}
	return task


def disk_task(module: str, modules: list[str], mode: str, cache_enabled: bool | None, force: bool = True):
	"""The same text as an on-disk module: Modules.load + transpile, or the Runner (forced, or non-forced over an output an earlier run wrote)."""
	def task(seams: Any) -> dict[str, Any]:
		from rogw.tranp.errors import Errors
		from rogw.tranp.module.modules import Modules
		from rogw.tranp.transpiler.types import ITranspiler
		from rogw.tranp.view.error_render import ErrorRender
		annotate_factories()
		app = tasks.make_app(modules, force=force, cache_enabled=cache_enabled)
		r: dict[str, Any] = {}
		try:
			if mode in ('runner', 'runner-nf'):
				runner = app.run(_make_runner)
				from rogw.tranp.module.types import ModulePath, ModulePaths
				runner.module_paths = ModulePaths([ModulePath(module, 'py')])
				runner.run()
			else:
				mod = app.resolve(Modules).load(module)
				r['text'] = app.resolve(ITranspiler).transpile(mod.entrypoint)
			r['status'] = 'ok'
		except BaseException as e:  # noqa: BLE001
			r['status'] = 'error'
			r['error'] = describe_exception(e)
			r['error']['is_tranp_error'] = isinstance(e, Errors.Error)
			r['error']['is_syntax'] = isinstance(e, Errors.Syntax)
			try:
				rendered = str(ErrorRender(e))
				r['render_ok'] = isinstance(rendered, str) and len(rendered) > 0
			except BaseException as e2:  # noqa: BLE001
				r['render_ok'] = False
				r['render_error'] = describe_exception(e2)
		return r
	return task


# ---------------------------------------------------------------------------------------------


class C07Runner:
	def __init__(self, case: dict[str, Any]) -> None:
		self.case = case
		self.pool = case['pool']
		self.steps = case['steps']
		self.cache = case.get('cache', 'lib')
		self.known = {k['id']: k for k in known_for('C07')}
		self.violations: list[dict[str, Any]] = []
		self.counters: dict[str, dict[str, int]] = {}
		self.distinct: set[str] = set()
		self.processes = 0

	def bump(self, t: str, k: str, n: int = 1) -> None:
		tbl = self.counters.setdefault(t, {})
		tbl[k] = tbl.get(k, 0) + n

	def violation(self, vclass: str, k: int, detail: dict[str, Any], site_sig: str = '') -> None:
		known = None
		if KF_DEEP in self.known and site_sig.startswith('builtins.RecursionError@') and detail.get('nesting_depth', 0) > DEEP_LIMIT:
			# signature: the interpreter's recursion limit is hit by an input that nests deeper than DEEP_LIMIT (anything shallower stays a violation)
			known = KF_DEEP
		for kid, kf in self.known.items():
			if kf.get('site_signature') and kf['site_signature'] == site_sig:
				known = kid
		self.violations.append({'class': vclass, 'op_index': k, 'detail': detail, 'known': known, 'sig': site_sig or vclass})

	def project(self) -> Project:
		proj = Project(self.pool, tag='c07')
		# things an import can run into that are neither a module nor absent: an extension-less regular file on the path, a symlink loop
		proj.sc.write('src/NOTES', b'not a package\n')
		if not os.path.lexists(proj.sc.path('src/selfloop.py')):
			os.symlink('selfloop.py', proj.sc.path('src/selfloop.py'))
		if self.cache in ('lib', 'warm'):
			for rel, (content, mtime) in library_seed().items():
				proj.sc.write(rel, content, mtime)
		return proj

	def fresh_answer(self, proj: Project, init: Any, text: str) -> dict[str, Any]:
		key = digest([self.pool['modules'], digest(self.pool['variants']), text])
		if key not in _VALID_CACHE:
			proj.sc.restore(init)
			rec = sim_process(proj.sc.root, loop_task(self.pool['modules'], terminal_lines(text) + ['exit'], None), timeout=120)
			self.processes += 1
			if rec['status'] != 'ok':
				raise HarnessError(f'fresh interactive process failed: {rec}')
			recs = rec['result']['records']
			_VALID_CACHE[key] = recs[0] if recs else {'status': 'none'}
			if rec['result']['escaped']:
				_VALID_CACHE[key] = {'status': 'escaped'}
		return _VALID_CACHE[key]

	def execute(self) -> dict[str, Any]:
		proj = self.project()
		try:
			init = proj.sc.snapshot()
			lines: list[str] = []
			for st in self.steps:
				if st['kind'] in ('valid', 'corrupt', 'ill-typed'):
					lines += terminal_lines(st['text'])
			lines.append('exit')
			subs = assemble(lines)
			rec = sim_process(proj.sc.root, loop_task(self.pool['modules'], lines, None), timeout=240)
			self.processes += 1
			if rec['status'] == 'timeout':
				rec = sim_process(proj.sc.root, loop_task(self.pool['modules'], lines, None), timeout=600)
				if rec['status'] == 'timeout':
					self.violation('loop-does-not-terminate', 0, {'lines': len(lines)})
					return self.result([])
			if rec['status'] != 'ok':
				raise HarnessError(f'loop process failed: {rec.get("error") or rec}')
			res = rec['result']
			parsed = list(res['records'])
			n_subs = len([s for s in subs if s is not None])
			stage_seq: list[str] = []
			if res['escaped']:
				e = res['escaped']
				site = f"{e['cls']}@{e['site']}"
				self.violation('exception-escapes-the-loop' if not e['is_tranp_error'] else 'tranp-error-escapes-the-loop', len(parsed), {'escaped': {k: e[k] for k in ('cls', 'site', 'msg')}, 'after_submissions': len(parsed) - 1, 'text': (subs[len(parsed) - 1] or '')[:300] if 0 < len(parsed) <= len(subs) else '', 'nesting_depth': nesting_depth(subs[len(parsed) - 1] or '') if 0 < len(parsed) <= len(subs) else 0}, site_sig=site)
			else:
				if res['quit_count'] != 1:
					self.violation('quit-not-printed-once', 0, {'quit_count': res['quit_count'], 'tail': res['tail']})
				if len(parsed) != n_subs + (1 if subs and subs[-1] is None else 0):
					self.violation('submission-count-mismatch', 0, {'segments': len(parsed), 'assembled': n_subs})
			for k, (sub, p) in enumerate(zip(subs, parsed)):
				if sub is None:
					continue
				if p['status'] == 'silent' and not (res['escaped'] and k == len(parsed) - 1):
					self.violation('submission-without-result-or-error-block', k, {'text': sub[:200]})
				if p['status'] == 'ok':
					self.bump('probes', 'submission transpiled')
					fresh = self.fresh_answer(proj, init, sub)
					if fresh.get('status') != 'ok':
						# a text a fresh process rejects but this session accepts (state left by earlier submissions): history dependence is C04's subject
						self.bump('probes', 'session accepted a text that a fresh process rejects (C04 territory, not judged)')
					elif fresh.get('text') != p['text']:
						self.violation('recovery-differs-from-fresh-process', k, {'text': sub[:200], 'fresh_status': fresh.get('status')})
					elif any(x.get('status') == 'error' for x in parsed[:k]):
						self.bump('probes', 'valid submission after damaged ones == fresh process')
				elif p['status'] == 'error':
					self.bump('error_heads', p['render_head'])
					stage_seq.append(p['render_head'].split('.')[-1])
			# the same texts as on-disk modules
			for k, st in enumerate(self.steps):
				if st['kind'] == 'disk':
					self.disk_step(proj, init, k, st)
			for st in self.steps:
				self.bump('ops', st['kind'] + (':' + st['corruption'] if st.get('corruption') else ''))
				self.distinct.add(digest(st.get('text', '')) + st['kind'])
			log = [[p.get('status'), p.get('render_head'), digest(p.get('text', ''))] for p in parsed] + [res['escaped'] and res['escaped']['cls']]
			return self.result(log)
		finally:
			proj.destroy()

	def disk_step(self, proj: Project, init: Any, k: int, st: dict[str, Any]) -> None:
		module = 'src.zz_damaged'
		proj.sc.restore(init)
		if st.get('mode') == 'runner-nf':
			# an earlier, healthy version of the module was transpiled: its output (with header) exists when the damaged text arrives
			proj.sc.write('src/zz_damaged.py', b'def zz_damaged(k: int) -> int:\n\treturn k\n', proj.sc.clock.advance(10**9))
			rec0 = sim_process(proj.sc.root, disk_task(module, self.pool['modules'] + [module], 'runner', None), timeout=120)
			self.processes += 1
			if rec0['status'] != 'ok' or rec0['result']['status'] != 'ok':
				raise HarnessError(f'prior run of the healthy module failed: {rec0}')
			self.bump('probes', 'non-forced run over an existing output')
		stamp = proj.sc.clock.advance(10**9)
		for attempt in range(2 if st.get('twice') else 1):
			# torn at an offset = a crash while the editor was saving; second attempt = same file, warm cache
			# (a text that imports its own module names it __main__ at the terminal and src.zz_damaged on disk)
			data = (st['text'].replace('__main__', module) + '\n').encode(st.get('encoding', 'utf-8'), 'replace')
			if st.get('bad_byte_at') is not None:
				# a byte that can never appear in UTF-8 (flipped bit on disk / file saved in another encoding)
				at = int(st['bad_byte_at'] * len(data))
				data = data[:at] + bytes([st.get('bad_byte', 0xE9)]) + data[at:]
			proj.sc.write('src/zz_damaged.py', data, stamp)
			rec = sim_process(proj.sc.root, disk_task(module, self.pool['modules'] + [module], st.get('mode', 'load'), None, force=st.get('mode') != 'runner-nf'), timeout=120)
			self.processes += 1
			if rec['status'] == 'timeout':
				self.violation('disk-load-does-not-terminate', k, {'text': st['text'][:200]})
				return
			if rec['status'] != 'ok':
				raise HarnessError(f'disk process failed: {rec.get("error") or rec}')
			r = rec['result']
			if r['status'] == 'ok':
				self.bump('probes', 'disk module ok')
				continue
			e = r['error']
			site = f"{e['cls']}@{e['site']}"
			chain = e.get('chain', [])
			# (this check injects no cache damage: a cache file that cannot be decoded here was left behind by tranp itself)
			if not e['is_tranp_error']:
				self.violation('non-tranp-exception-from-disk-module', k, {'error': {kk: e[kk] for kk in ('cls', 'site', 'msg')}, 'text': st['text'][:300], 'nesting_depth': nesting_depth(st['text']), 'attempt': attempt}, site_sig=site)
			else:
				self.bump('disk_errors', e['cls'].split('.')[-1])
			if not r.get('render_ok', True):
				re_ = r.get('render_error') or {}
				self.violation('error-rendering-fails', k, {'error': e['cls'], 'render_error': {kk: re_.get(kk) for kk in ('cls', 'site', 'msg')}, 'nesting_depth': nesting_depth(st['text'])}, site_sig=f"{re_.get('cls')}@render:{re_.get('site')}")
			# unparsable text must be Errors.Syntax on both paths: compare with what the in-memory path said for the same text
			mem = None if (st.get('bad_byte_at') is not None or st.get('encoding')) else self.memory_class(proj, init, st['text'])
			if e.get('is_syntax') and mem not in ('Syntax', None):
				self.violation('syntax-error-on-disk-but-not-in-memory', k, {'memory': mem, 'text': st['text'][:300]}, site_sig=f'memory:{mem}')

	def memory_class(self, proj: Project, init: Any, text: str) -> str | None:
		"""Error class head the interactive path reports for this text (None when it cannot be attributed: the text splits at the terminal)."""
		if len(assemble(terminal_lines(text))) != 1 or any(ln.rstrip() != ln for ln in text.split('\n')):
			return None
		key = 'mem:' + digest([self.pool['modules'], digest(self.pool['variants']), text])
		if key not in _VALID_CACHE:
			proj.sc.restore(init)
			rec = sim_process(proj.sc.root, loop_task(self.pool['modules'], terminal_lines(text) + ['exit'], None), timeout=120)
			self.processes += 1
			if rec['status'] != 'ok':
				return None
			res = rec['result']
			if res['escaped']:
				_VALID_CACHE[key] = 'escaped:' + res['escaped']['cls']
			else:
				p = res['records'][0] if res['records'] else {}
				_VALID_CACHE[key] = p.get('render_head', 'ok').split('.')[-1] if p.get('status') == 'error' else 'ok'
		v = _VALID_CACHE[key]
		return v

	def result(self, log: list[Any]) -> dict[str, Any]:
		return {'violations': self.violations, 'counters': self.counters, 'distinct': sorted(self.distinct), 'states': [], 'log': digest(log), 'processes': self.processes, 'sim_time_s': 0.0}


def base_texts(pool: dict[str, Any]) -> list[str]:
	out = list(corpus.STANDALONE) + list(corpus.CYCLIC)
	for m in pool['modules'][:3]:
		t = pools.tag_of(m)
		out.append(f'from {m} import make_{t}\ndef main_{t}(k: int) -> int:\n\tv = make_{t}()\n\tw = v.value\n\tu = w\n\txs = [u]\n\treturn k if k > 0 else len(xs)')
	return out


class C07(Engine):
	prop = 'C07'
	rule = ('case = one interactive session (6-25 submissions through the simulated terminal: valid texts, byte/line/bracket/indent-corrupted texts, token soups, well-formed ill-typed texts) '
		'plus the same damaged texts written as on-disk modules and loaded in separate processes; invariants: nothing but Errors.Error escapes, the loop survives until exit and prints Quit once, '
		'every erroneous submission gets an error block, valid submissions after damaged ones equal a fresh process, disk and memory paths agree on Errors.Syntax, rendering never fails, termination. '
		'distinct_nontrivial = distinct (text, path kind) inputs delivered')
	quick_runs = 330
	thorough_runs = 10000
	quick_budget_s = 90.0
	thorough_budget_s = 1500.0
	components_real = ['Interactive.run/rebuild_module', 'bin/io.tty', 'Modules/ModuleLoader', 'SyntaxParserOfLark (disk and in-memory branches)', 'all preprocessors', 'Reflections', 'Py2Cpp/Procedure', 'ErrorRender', 'Runner']
	components_stubbed = Engine.components_stubbed + ['rogw.tranp.bin.io.readline replaced by the simulated terminal (the real one spawns bash per line)']
	assumptions = ['at stdin EOF the real loop spins; the simulated terminal always ends with `exit`']

	def canonical_cases(self) -> list[dict[str, Any]]:
		pool = pools.fixed_pool(0)
		base = base_texts(pool)
		cases: list[dict[str, Any]] = []
		V = lambda t: {'kind': 'valid', 'text': t}
		cases.append({'pool': pool, 'steps': [V(t) for t in base]})
		cases.append({'pool': pool, 'steps': [V(base[0]), {'kind': 'corrupt', 'corruption': 'truncate', 'text': 'def f(k: int) -> int:\n\treturn (k +'}, V(base[0]), {'kind': 'corrupt', 'corruption': 'flip', 'text': 'def f(k: int) -> int:\n\treturn k $ 1'}, V(base[1])]})
		cases.append({'pool': pool, 'steps': [V(corpus.CYCLIC[0]), V(base[0]), V(corpus.CYCLIC[0]), V(corpus.CYCLIC[0]), V(base[1])]})
		cases.append({'pool': pool, 'steps': [V(base[1]), {'kind': 'corrupt', 'corruption': 'indent', 'text': 'def f(k: int) -> int:\n\t\t\treturn k\n\treturn k'}, V(base[1])]})
		for i in range(0, len(corpus.ILL_TYPED), 4):
			# every ill-typed text also goes through the disk path (where the error block quotes the source file)
			steps = [V(base[2])]
			for t in corpus.ILL_TYPED[i:i + 4]:
				steps += [{'kind': 'ill-typed', 'text': t}, {'kind': 'disk', 'text': t, 'mode': 'load'}]
			steps.append(V(base[2]))
			cases.append({'pool': pool, 'steps': steps})
		cases.append({'pool': pool, 'steps': [V(base[0]), {'kind': 'disk', 'text': "def f(k: int) -> int:\n\ts = 'caf\u00e9'\n\treturn k", 'encoding': 'latin-1', 'mode': 'load', 'twice': True},
			{'kind': 'disk', 'text': base[1], 'bad_byte_at': 0.5, 'bad_byte': 0xFF, 'mode': 'runner'}, {'kind': 'disk', 'text': base[2], 'bad_byte_at': 0.0, 'bad_byte': 0xC3, 'mode': 'load'}, V(base[0])]})
		cases.append({'pool': pool, 'steps': [V(base[0]), {'kind': 'disk', 'text': base[1], 'bad_byte_at': 0.3, 'bad_byte': 0xFF, 'mode': 'runner-nf'}, {'kind': 'disk', 'text': 'def f(k: int) -> int:\n\treturn (k +', 'mode': 'runner-nf', 'twice': True},
			{'kind': 'disk', 'text': "def f(k: int) -> int:\n\ts = 'caf\u00e9'\n\treturn k", 'encoding': 'latin-1', 'mode': 'runner-nf'}, {'kind': 'disk', 'text': corpus.ILL_TYPED[0], 'mode': 'runner-nf'}, V(base[0])]})
		cases.append({'pool': pool, 'steps': [V(base[0]), {'kind': 'corrupt', 'corruption': 'deep-nesting', 'text': 'x = ' + '(' * 150 + '1' + ')' * 150}, V(base[0]), {'kind': 'corrupt', 'corruption': 'deep-nesting', 'text': 'x = f' + '(1)' * 600}]})
		cases.append({'pool': pool, 'steps': [{'kind': 'disk', 'text': 'def f(k: int) -> int:\n\treturn (k +', 'mode': 'runner', 'twice': True}, {'kind': 'disk', 'text': 'class A:\n\tdef m(self) -> int:\n\t\treturn 1\n\ndef m2(self, k: int) -> int:\n\treturn self.k', 'mode': 'load'}, V(base[0])]})
		return cases

	def generate(self, rng: random.Random, index: int) -> dict[str, Any]:
		pool = pools.fixed_pool(rng.randrange(4)) if rng.random() < 0.7 else pools.gen_pool(rng, allow_invalid=False)
		base = base_texts(pool)
		kinds = [c for c in CORRUPTIONS if rng.random() < 0.6] or ['flip']
		w_valid, w_corrupt, w_ill, w_disk = rng.uniform(1, 3), rng.uniform(2, 5), rng.uniform(0, 1.5), rng.uniform(0.3, 1.5)
		steps: list[dict[str, Any]] = []
		for _ in range(rng.randint(6, 25)):
			r = rng.choices(['valid', 'corrupt', 'ill', 'disk'], weights=[w_valid, w_corrupt, w_ill, w_disk])[0]
			if r == 'valid':
				steps.append({'kind': 'valid', 'text': rng.choice(base)})
			elif r == 'corrupt':
				c = rng.choice(kinds)
				t = corrupt(rng.choice(base + corpus.ILL_TYPED[:4]), c, rng)
				if rng.random() < 0.2:
					t = corrupt(t, rng.choice(kinds), rng)
				steps.append({'kind': 'corrupt', 'corruption': c, 'text': t})
			elif r == 'ill':
				steps.append({'kind': 'ill-typed', 'text': rng.choice(corpus.ILL_TYPED)})
			else:
				c = rng.choice(kinds)
				if rng.random() < 0.3:
					steps.append({'kind': 'disk', 'text': rng.choice(corpus.ILL_TYPED), 'mode': rng.choice(['load', 'runner', 'runner-nf']), 'twice': rng.random() < 0.3})
				elif rng.random() < 0.2:
					steps.append({'kind': 'disk', 'text': rng.choice(base), 'bad_byte_at': round(rng.random(), 4), 'bad_byte': rng.choice([0xE9, 0xFF, 0xC3, 0x80, 0xF8]), 'mode': rng.choice(['load', 'runner', 'runner-nf']), 'twice': rng.random() < 0.3})
				else:
					src = rng.choice(base + [pool['variants'][m][0]['src'].rstrip('\n') for m in pool['modules']])
					steps.append({'kind': 'disk', 'corruption': c, 'text': corrupt(src, c, rng), 'mode': rng.choice(['load', 'load', 'runner', 'runner-nf']), 'twice': rng.random() < 0.3})
		if rng.random() < 0.08:
			# last, because the loop is known not to survive it (see known findings): everything before it is judged normally
			steps.append({'kind': 'corrupt', 'corruption': 'deep-nesting', 'text': deep_text(rng)})
		elif rng.random() < 0.03:
			steps.append({'kind': 'disk', 'corruption': 'deep-nesting', 'text': deep_text(rng), 'mode': 'load'})
		return {'pool': pool, 'steps': steps}

	def execute(self, case: dict[str, Any]) -> dict[str, Any]:
		return C07Runner(case).execute()

	def minimise(self, case: dict[str, Any], vclass: str) -> dict[str, Any]:
		def fails(steps: list[dict[str, Any]]) -> bool:
			if not steps:
				return False
			res = C07Runner({**case, 'steps': steps}).execute()
			return any(v['class'] == vclass and not v.get('known') for v in res['violations'])
		return {**case, 'steps': ddmin(case['steps'], fails, budget=30)}

	def sample_of(self, case: dict[str, Any]) -> Any:
		return {'modules': case['pool']['modules'], 'steps': [{k: (v if k != 'text' else v[:80]) for k, v in st.items()} for st in case['steps'][:10]]}
