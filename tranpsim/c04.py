"""C04 — output is deterministic and independent of session history (session-sim)."""
import json
import os
import random
import subprocess
import sys
from typing import Any

from tranpsim import boot, pools
from tranpsim.core import Evidence, HarnessError, ddmin, digest, known_for
from tranpsim.framework import Engine
from tranpsim.persist import Project
from tranpsim.proc import sim_process
from tranpsim.session import fresh_task, session_task

KF_UNLOAD = 'C04/unload-of-imported-module-breaks-cached-importers'
KF_NESTED = 'C04/nested-import-resolved-through-session-state'

_ORACLE_MEMO: dict[str, dict[str, Any]] = {}


def main_texts(pool: dict[str, Any], rng: random.Random) -> list[str]:
	"""__main__ submissions (no blank lines: an empty line ends a submission at the terminal)."""
	texts = []
	for m in pools.core(pool):
		t = pools.tag_of(m)
		texts.append(f'from {m} import make_{t}\ndef main_{t}(k: int) -> int:\n\tv = make_{t}()\n\tw = v.value\n\tu = w\n\txs = [u]\n\treturn k if k > 0 else len(xs)')
	texts.append('from __main__ import A\nclass A:\n\tn: int\n\tdef __init__(self) -> None:\n\t\tself.n = 0\ndef use_a(k: int) -> int:\n\ta = A()\n\treturn a.n + k')
	# the same shape with another class at the same tree position (state keyed by position must not survive a re-submission)
	for name in ('Alpha', 'Beta', 'Gamma'):
		texts.append(f'class {name}:\n\tdef value(self) -> int:\n\t\treturn 1\ndef run() -> None:\n\ta = {name}()\n\tprint(a.value())')
	# a submission rejected midway through symbol expansion (class and function already registered, then an undefined annotation),
	# and accepted ones that re-use its class / function names with other types
	texts.append('class Rec:\n\tdef f(self) -> int:\n\t\treturn 1\ndef g(a: Rec, u: Undefined) -> None:\n\tx = a.f()\n\tprint(x)')
	texts.append("class Rec:\n\tdef f(self) -> str:\n\t\treturn 's'\ndef g(a: Rec) -> None:\n\tx = a.f()\n\tprint(x)")
	texts.append('class Rec:\n\tdef f(self) -> float:\n\t\treturn 1.5\ndef g(a: Rec) -> None:\n\tx = a.f()\n\tprint(x)')
	# rejected only after templates that emit include dependencies were rendered (string / float literals first, the unknown name last)
	texts.append("def late(k: int) -> int:\n\ts = 'x'\n\tf = 1.5\n\treturn undefined_name + k")
	texts.append("def lone(k: int) -> int:\n\ts = 'x'\n\tn = len(s)\n\treturn k + n")
	texts.append('def lone2(k: int) -> float:\n\tf = 1.5\n\treturn f')
	texts.append('def bad(k: int) -> int:\n\treturn undefined_name + k')
	texts.append('def broken(k: int) -> int:\n\treturn (k +')
	m = pools.core(pool)[-1]
	texts.append(f'def nested_{pools.tag_of(m)}(k: int) -> int:\n\tfrom {m} import make_{pools.tag_of(m)}\n\tv = make_{pools.tag_of(m)}()\n\tw = v.value\n\treturn k')
	m = pools.core(pool)[0]
	texts.append(f'from {m} import make_{pools.tag_of(m)}\ndef err(k: int) -> int:\n\tv = make_{pools.tag_of(m)}()\n\treturn v.no_such_field')
	return texts


def import_map(pool: dict[str, Any], state: dict[str, int]) -> dict[str, list[str]]:
	return {m: [d for d in pool['variants'][m][state[m]]['imports'] if d in state] for m in state}


def importers_of(imports: dict[str, list[str]], x: str) -> set[str]:
	"""Modules that import x directly or transitively."""
	out: set[str] = set()
	changed = True
	while changed:
		changed = False
		for m, ds in imports.items():
			if m not in out and (x in ds or out & set(ds)):
				out.add(m)
				changed = True
	return out


def nested_imports(text: str, state: dict[str, int]) -> list[str]:
	"""Pool modules imported by an import statement that is not at the top level of the text."""
	out = []
	for line in text.split('\n'):
		stripped = line.lstrip()
		if stripped != line and stripped.startswith('from ') and ' import ' in stripped:
			m = stripped.split()[1]
			if m in state:
				out.append(m)
	return out


def text_imports(text: str, state: dict[str, int]) -> list[str]:
	out = []
	for line in text.split('\n'):
		if line.startswith('from ') and ' import ' in line:
			m = line.split()[1]
			if m in state:
				out.append(m)
	return out


class LoadModel:
	"""Mirror of Modules.__modules for the known-finding signature (not an oracle).

	`ever_broken`: modules that are (or were, since they were last loaded) listed as loaded while a module of their import closure
	was not — their own analysis, or that of modules loaded on top of them, may have seen the hole."""

	def __init__(self, imports: dict[str, list[str]]) -> None:
		self.imports = imports
		self.loaded: set[str] = set()
		self.ever_broken: set[str] = set()

	def load(self, m: str) -> None:
		if m in self.loaded:
			return
		self.loaded.add(m)
		for d in self.imports.get(m, []):
			self.load(d)

	def unload(self, m: str) -> None:
		self.loaded.discard(m)

	def reach(self, targets: list[str]) -> set[str]:
		seen: set[str] = set()
		todo = list(targets)
		while todo:
			m = todo.pop()
			if m in seen:
				continue
			seen.add(m)
			todo.extend(self.imports.get(m, []))
		return seen

	def broken_from(self, targets: list[str]) -> bool:
		"""Some loaded module reachable from the targets imports a module that is no longer loaded, or was analysed over such a hole."""
		reach = self.reach(targets)
		if reach & self.ever_broken:
			return True
		return any(d not in self.loaded for m in reach if m in self.loaded for d in self.imports.get(m, []))

	def resync(self, loaded_now: set[str]) -> None:
		"""Adopt what the live process reports and update the ever-broken marks."""
		newly = loaded_now - self.loaded
		gone = self.loaded - loaded_now
		self.loaded = set(loaded_now)
		self.ever_broken -= gone
		for m in sorted(self.loaded):
			reach = self.reach([m])
			holes = any(d not in self.loaded for x in reach if x in self.loaded for d in self.imports.get(x, []))
			if holes or (m in newly and (reach - {m}) & self.ever_broken):
				self.ever_broken.add(m)


def op_key(op: dict[str, Any]) -> str:
	return json.dumps({k: v for k, v in op.items() if k not in ('isolate', 'isolate_skip', 'comp')}, sort_keys=True)


class C04Runner:
	def __init__(self, case: dict[str, Any]) -> None:
		self.case = case
		self.pool = case['pool']
		self.state = case.get('state') or {m: (self.pool.get('initial') or {}).get(m, 0) for m in self.pool['modules']}
		self.flavour = case.get('flavour', 'runner')
		self.cache = case.get('cache')  # None = enabled and cold, False = disabled, 'lib' = enabled, library modules pre-cached, 'warm' = enabled and fully pre-warmed
		self.ops = case['ops']
		self.known_ids = {k['id'] for k in known_for('C04')}
		self.counters: dict[str, dict[str, int]] = {}
		self.violations: list[dict[str, Any]] = []
		self.distinct: set[str] = set()
		self.states: set[str] = set()
		self.processes = 0
		self.pool_key = digest([self.pool['modules'], sorted(self.state.items()), self.flavour, str(self.cache)]) + digest(self.pool['variants'])

	def bump(self, t: str, k: str, n: int = 1) -> None:
		tbl = self.counters.setdefault(t, {})
		tbl[k] = tbl.get(k, 0) + n

	def project(self, tag: str) -> Project:
		proj = Project(self.pool, tag=tag)
		for m, v in self.state.items():
			if proj.state.get(m) != v:
				proj.set_variant(m, v, 10**9)
		if self.cache == 'warm':
			rec = proj.run(force=True)
			proj.sc.clear('out')
			self.processes += 1
		elif self.cache == 'lib':
			from tranpsim.persist import library_seed
			for rel, (content, mtime) in library_seed().items():
				proj.sc.write(rel, content, mtime)
		return proj

	@property
	def cache_enabled(self) -> bool | None:
		return False if self.cache is False else None

	def oracle(self, proj: Project, init: Any, op: dict[str, Any]) -> dict[str, Any]:
		memo = _ORACLE_MEMO.setdefault(self.pool_key, {})
		key = op_key(op)
		if key not in memo:
			proj.sc.restore(init)
			rec = sim_process(proj.sc.root, fresh_task(self.flavour, self.pool['modules'], op, self.cache_enabled), timeout=120)
			self.processes += 1
			if rec['status'] != 'ok':
				raise HarnessError(f'fresh oracle process failed: {rec}')
			memo[key] = rec['result'][0]
		return memo[key]

	def run_session(self, proj: Project, init: Any, ops: list[dict[str, Any]]) -> list[dict[str, Any]]:
		proj.sc.restore(init)
		rec = sim_process(proj.sc.root, session_task(self.flavour, self.pool['modules'], ops, self.cache_enabled), timeout=300)
		self.processes += 1
		if rec['status'] == 'timeout':
			return [{'status': 'timeout'}]
		if rec['status'] != 'ok':
			raise HarnessError(f'session process failed: {rec.get("error") or rec}')
		return rec['result']

	def mismatches(self, ops: list[dict[str, Any]], results: list[dict[str, Any]], proj: Project, init: Any, count: bool) -> list[dict[str, Any]]:
		out: list[dict[str, Any]] = []
		imports = import_map(self.pool, self.state)
		model = LoadModel(imports)
		aborted = False
		seen_ops: list[str] = []
		transpiled: dict[str, int] = {}
		for k, (op, r) in enumerate(zip(ops, results)):
			kind = op['op']
			targets = [op['m']] if 'm' in op else (text_imports(op.get('text', ''), self.state) if kind == 'submit' else list(op.get('order', [])))
			if kind in ('load', 'transpile'):
				model.load(op['m'])
			elif kind == 'unload':
				if count and importers_of(imports, op['m']) & model.loaded:
					self.bump('probes', 'unload of a module that loaded modules import')
				model.unload(op['m'])
			nested = kind == 'submit' and bool(set(nested_imports(op.get('text', ''), self.state)) & model.loaded)
			if nested and count:
				self.bump('probes', 'submission with an import below the top level of a module loaded earlier in the session')
			broken = False
			if kind in ('submit', 'runner'):
				# targets are served one after the other: the first one that reaches a hole fails the request
				for t in targets:
					model.load(t)
					if model.broken_from([t]):
						broken = True
						break
			broken = broken or model.broken_from(targets)
			if 'loaded' in r:
				# re-synchronise the mirror with what the live process reports (a failed request stops loading midway)
				model.resync(set(r['loaded']))
			if op.get('comp'):
				continue
			if count:
				self.states.add(f"{','.join(sorted(model.loaded))}|{','.join(sorted(transpiled))}|{kind}|{aborted}")
				if kind == 'transpile':
					transpiled[op['m']] = transpiled.get(op['m'], 0) + 1
					if transpiled[op['m']] == 3:
						self.bump('probes', 'same module transpiled >= 3 times')
				if kind == 'submit' and aborted:
					self.bump('probes', 'submission after an aborted request')
				if kind == 'runner' and len(set(op['order'])) < len(op['order']):
					self.bump('probes', 'runner with duplicate target')
				self.bump('ops', kind)
			if r.get('status') == 'timeout':
				out.append({'k': k, 'class': 'session-does-not-terminate', 'detail': {}, 'broken': False})
				break
			want = self.oracle(proj, init, {**op, 'order': sorted(set(op['order']))} if kind == 'runner' else op)
			if r['status'] != want['status']:
				out.append({'k': k, 'class': 'session-fails-fresh-succeeds' if want['status'] == 'ok' else 'session-succeeds-fresh-fails', 'broken': broken, 'nested': nested,
					'detail': {'op': {kk: vv for kk, vv in op.items() if kk != 'text'}, 'session': r.get('error', {}).get('cls'), 'site': r.get('error', {}).get('site'), 'fresh': want.get('error', {}).get('cls')}})
			elif r['status'] == 'error':
				if r['error']['cls'] != want['error']['cls']:
					out.append({'k': k, 'class': 'error-class-differs', 'broken': broken, 'detail': {'op': {kk: vv for kk, vv in op.items() if kk != 'text'}, 'session': r['error']['cls'], 'fresh': want['error']['cls']}})
			elif 'text' in want:
				if r.get('text') != want['text']:
					out.append({'k': k, 'class': 'output-differs-from-fresh-process', 'broken': broken, 'detail': {'op': {kk: vv for kk, vv in op.items() if kk != 'text'}, **line_diff(r.get('text'), want['text'])}})
				elif count:
					self.bump('probes', 'answer == fresh process')
			elif 'files' in want:
				for m in sorted(set(op['order'])):
					rel = 'out/' + m.replace('.', '/') + '.h'
					if r['files'].get(rel) != want['files'].get(rel):
						out.append({'k': k, 'class': 'runner-output-differs-from-fresh-process', 'broken': broken, 'detail': {'module': m, 'order': op['order'], **line_diff(r['files'].get(rel), want['files'].get(rel))}})
						break
				else:
					if count:
						self.bump('probes', 'runner files == fresh process (canonical order)')
			if r['status'] == 'error':
				aborted = True
			skip = importers_of(imports, op['m']) if 'm' in op else set()
			for m, (b, a) in (r.get('isolation') or {}).items():
				if m in skip:
					# symbols of a module that imports the operated one are resolved lazily against it; only unrelated modules are watched
					continue
				if count:
					self.bump('probes', 'isolation observation (forked grandchild)')
				if b != a:
					out.append({'k': k, 'class': 'other-module-changed', 'broken': broken, 'detail': {'op': {kk: vv for kk, vv in op.items() if kk != 'text'}, 'module': m, 'before': b, 'after': a}})
			seen_ops.append(kind + ('!' if r['status'] == 'error' else ''))
			if count and len(seen_ops) >= 2:
				self.distinct.add('>'.join(seen_ops[-5:]))
		return out

	def cascade(self, ops: list[dict[str, Any]]) -> list[dict[str, Any]]:
		"""Compensated mode for KF_UNLOAD: before unloading a module, unload every pool module that imports it (exactly what the finding says is missing)."""
		imports = import_map(self.pool, self.state)
		out: list[dict[str, Any]] = []
		for op in ops:
			if op['op'] == 'unload':
				for d in sorted(importers_of(imports, op['m'])):
					out.append({'op': 'unload', 'm': d, 'comp': True})
			out.append(op)
		return out

	def forget_nested(self, ops: list[dict[str, Any]]) -> list[dict[str, Any]]:
		"""Compensated mode for KF_NESTED: before a submission, unload the modules it imports below the top level
		(so that nothing loaded earlier in the session can satisfy that import)."""
		out: list[dict[str, Any]] = []
		for op in ops:
			if op['op'] == 'submit':
				for m in sorted(set(nested_imports(op.get('text', ''), self.state))):
					out.append({'op': 'unload', 'm': m, 'comp': True})
			out.append(op)
		return out

	def execute(self) -> dict[str, Any]:
		proj = self.project('sess')
		orc = self.project('orc')
		try:
			init = proj.sc.snapshot()
			oinit = orc.sc.snapshot()
			results = self.run_session(proj, init, self.ops)
			mm = self.mismatches(self.ops, results, orc, oinit, count=True)
			if mm:
				known_for_flag: dict[str, str] = {}
				flags = {'broken': (KF_UNLOAD, self.cascade), 'nested': (KF_NESTED, self.forget_nested)}
				for flag, (kid, transform) in flags.items():
					if kid in self.known_ids and any(m.get(flag) for m in mm):
						cops = transform(self.ops)
						cres = self.run_session(proj, init, cops)
						left = self.mismatches(cops, cres, orc, oinit, count=False)
						# the compensated session must be free of the mismatches this finding explains (others are judged on their own)
						if not [x for x in left if x.get(flag) or x['class'] in {m['class'] for m in mm if m.get(flag)}]:
							known_for_flag[flag] = kid
				for m in mm:
					known = next((known_for_flag[f] for f in ('broken', 'nested') if m.get(f) and f in known_for_flag), None)
					self.violations.append({'class': m['class'], 'op_index': m['k'], 'detail': m['detail'], 'known': known, 'sig': m['class']})
			log = [[r.get('status'), (r.get('error') or {}).get('cls'), digest(r.get('text') or r.get('files') or '')] for r in results]
			return {'violations': self.violations, 'counters': self.counters, 'distinct': sorted(self.distinct), 'states': sorted(self.states), 'log': digest(log), 'processes': self.processes + proj.processes + orc.processes, 'sim_time_s': 0.0}
		finally:
			proj.destroy()
			orc.destroy()


def line_diff(a: str | None, b: str | None) -> dict[str, Any]:
	la, lb = (a or '<absent>').split('\n'), (b or '<absent>').split('\n')
	for n, (x, y) in enumerate(zip(la, lb)):
		if x != y:
			return {'line': n + 1, 'session': x[:160], 'fresh': y[:160]}
	return {'session_lines': len(la), 'fresh_lines': len(lb)}


class C04(Engine):
	prop = 'C04'
	rule = ('case = one live session (runner- or interactive-flavoured App) answering 5-30 seeded operations (load / transpile / repeated transpile / unload / unload of an imported '
		'module / interactive re-submission incl. erroneous texts / Runner.run over a permuted or duplicated target list), cache disabled, cold or warm; every answer is compared byte for byte '
		'(or by exception class) with a fresh process that only serves that one request; isolation is observed in forked grandchildren. distinct_nontrivial = distinct 5-op windows of '
		'(op kind, failed?) that precede a judged answer. Plus exec-fresh interpreters under other PYTHONHASHSEED values.')
	quick_runs = 90
	thorough_runs = 3000
	quick_budget_s = 70.0
	thorough_budget_s = 1500.0
	components_real = ['App/LazyDI wiring', 'Modules', 'ModuleLoader', 'Entrypoints + per-module DI (combine)', 'NodeResolver/Nodes/Node memo', 'SymbolDB', 'all preprocessors', 'Reflections', 'Py2Cpp (Procedure, dependency stack)', 'Renderer', 'Interactive.rebuild_module', 'Runner']
	components_stubbed = Engine.components_stubbed + ['no terminal: Interactive is driven through rebuild_module/transpile (the loop itself is C07)']
	assumptions = ['a forked child of the pristine worker stands for a fresh process; a sample is recomputed in exec-fresh interpreters under PYTHONHASHSEED 0, 1 and a seeded value',
		'sources do not change inside a session (edits between processes are C05/C06)']

	def prepare(self, ev: Evidence, tier: str) -> None:
		n = 3 if tier == 'quick' else 12
		res = exec_spot_checks(n)
		ev.coverage['exec_fresh_spot_checks'] = res
		if res['mismatches']:
			self.spot_violation = res['mismatches'][0]

	def extra_passes(self, ev: Evidence, tier: str, seed: int) -> list[dict[str, Any]]:
		v = getattr(self, 'spot_violation', None)
		if v:
			return [{'label': 'hashseed', 'case': v['case'], 'violation': {'class': 'hash-seed-changes-output', 'detail': v['detail'], 'sig': 'hashseed'}}]
		return []

	def canonical_cases(self) -> list[dict[str, Any]]:
		cases: list[dict[str, Any]] = []
		for which in (0, 1):
			pool = pools.fixed_pool(which)
			mods = pools.core(pool)
			top, leaf = mods[0], mods[-1]
			mid = mods[1]
			T = lambda m, **kw: {'op': 'transpile', 'm': m, **kw}
			for cache in (False, 'lib', 'warm'):
				def c(ops: list[dict[str, Any]], flavour: str = 'runner') -> None:
					cases.append({'pool': pool, 'flavour': flavour, 'cache': cache, 'ops': ops})
				c([T(top), T(top), T(top)])
				c([T(leaf), T(top), T(leaf)])
				c([T(top), {'op': 'unload', 'm': top}, T(top)])
				c([T(top), {'op': 'unload', 'm': leaf}, T(top)])
				c([T(top, isolate=True), {'op': 'load', 'm': mid, 'isolate': True}, T(mid), {'op': 'unload', 'm': top, 'isolate': True}, T(leaf)])
				c([{'op': 'runner', 'order': list(reversed(mods))}, {'op': 'runner', 'order': mods + [top]}, T(mid)])
			texts = main_texts(pool, random.Random(1))
			S = lambda t: {'op': 'submit', 'text': t}
			cases.append({'pool': pool, 'flavour': 'interactive', 'cache': None, 'ops': [S(texts[0]), S(texts[0]), S(texts[1]), T(leaf), S(texts[0])]})
			cases.append({'pool': pool, 'flavour': 'interactive', 'cache': False, 'ops': [S(texts[-3]), S(texts[0]), S(texts[-1]), S(texts[0]), S(texts[-5])]})
			cases.append({'pool': pool, 'flavour': 'interactive', 'cache': None, 'ops': [S(texts[-4]), S(texts[-5]), S(texts[2]), S(texts[-5])]})
			cases.append({'pool': pool, 'flavour': 'interactive', 'cache': 'lib', 'ops': [S(texts[-2]), S(texts[len(mods) - 1]), S(texts[-2]), S(texts[0])]})
			same_shape = [t for t in texts if t.startswith('class Alpha') or t.startswith('class Beta') or t.startswith('class Gamma')]
			cases.append({'pool': pool, 'flavour': 'interactive', 'cache': 'lib', 'ops': [S(same_shape[0]), S(same_shape[1]), S(same_shape[2]), S(same_shape[0])]})
			late = [t for t in texts if t.startswith('def late')]
			cases.append({'pool': pool, 'flavour': 'interactive', 'cache': 'lib', 'ops': [S(same_shape[0]), S(late[0]), S(same_shape[0]), S(late[0]), S(late[0]), S(same_shape[1])]})
			rec = [t for t in texts if t.startswith('class Rec')]
			cases.append({'pool': pool, 'flavour': 'interactive', 'cache': 'lib', 'ops': [S(rec[0]), S(rec[1]), S(rec[1])]})
			cases.append({'pool': pool, 'flavour': 'interactive', 'cache': False, 'ops': [S(rec[2]), S(rec[0]), S(rec[0]), S(rec[1]), S(rec[2])]})
		# prefix-related sibling modules: unloading src.a must not take anything of src.ab / src.a_b with it (and the other way round)
		fan = pools.gen_pool(random.Random(9), shape='fan', n_variants=3, allow_invalid=False, names=['src.d', 'src.ab', 'src.a', 'src.a_b'], swap_p=0.0)
		T = lambda m, **kw: {'op': 'transpile', 'm': m, **kw}
		for victim, others in (('src.a', ['src.ab', 'src.a_b']), ('src.ab', ['src.a', 'src.a_b'])):
			for cache in (False, 'lib'):
				cases.append({'pool': fan, 'flavour': 'runner', 'cache': cache, 'ops': [T('src.d'), {'op': 'unload', 'm': victim}] + [T(o) for o in others] + [T('src.d'), T(victim)]})
		ex = pools.example_pool()
		cases.append({'pool': ex, 'flavour': 'runner', 'cache': 'warm', 'ops': [T('example.json'), T('example.FW.string', isolate=True), T('example.json'), {'op': 'unload', 'm': 'example.FW.string'}, T('example.json')]})
		cases.append({'pool': ex, 'flavour': 'runner', 'cache': 'lib', 'ops': [{'op': 'runner', 'order': ['example.FW.string', 'example.json', 'example.json']}, T('example.json')]})
		return cases

	def generate(self, rng: random.Random, index: int) -> dict[str, Any]:
		pool = pools.gen_pool(rng, allow_invalid=False)
		mods = pool['modules']
		state = {m: rng.randrange(len(pool['variants'][m])) for m in mods}
		for m in mods:
			if '-import' in pool['variants'][m][state[m]]['note']:
				state[m] = 0
		flavour = 'interactive' if rng.random() < 0.4 else 'runner'
		cache = rng.choice([False, None, 'lib', 'lib', 'lib', 'warm', 'warm'])
		imports = import_map(pool, state)
		texts = main_texts(pool, rng)
		w = {'load': rng.uniform(0.3, 2), 'transpile': rng.uniform(2, 5), 'unload': rng.uniform(0.3, 2), 'submit': rng.uniform(1, 4) if flavour == 'interactive' else 0, 'runner': rng.uniform(0, 1.2) if flavour == 'runner' else 0}
		focus = rng.sample(mods, min(len(mods), rng.randint(2, len(mods))))
		ops: list[dict[str, Any]] = []
		isolations = 0
		for _ in range(rng.randint(5, 30)):
			kind = rng.choices(list(w), weights=list(w.values()))[0]
			op: dict[str, Any]
			if kind in ('load', 'transpile', 'unload'):
				m = rng.choice(focus)
				op = {'op': kind, 'm': m}
				if isolations < 6 and rng.random() < 0.2:
					op['isolate'] = True
					if kind == 'unload':
						op['isolate_skip'] = sorted(importers_of(imports, m))
					isolations += 1
			elif kind == 'submit':
				op = {'op': 'submit', 'text': rng.choice(texts)}
			else:
				order = rng.sample(mods, rng.randint(1, len(mods)))
				if rng.random() < 0.3:
					order.append(rng.choice(order))
				op = {'op': 'runner', 'order': order, 'force': rng.random() < 0.8}
			ops.append(op)
		return {'pool': pool, 'state': state, 'flavour': flavour, 'cache': cache, 'ops': ops}

	def execute(self, case: dict[str, Any]) -> dict[str, Any]:
		if case.get('kind') == 'hashseed':
			res = exec_spot_checks(1, pool=case['pool'], hashseeds=case.get('hashseeds'))
			vs = [{'class': 'hash-seed-changes-output', 'detail': m['detail'], 'known': None, 'sig': 'hashseed'} for m in res['mismatches']]
			return {'violations': vs, 'counters': {}, 'distinct': [], 'states': [], 'log': digest(res['mismatches']), 'processes': 0, 'sim_time_s': 0.0}
		return C04Runner(case).execute()

	def minimise(self, case: dict[str, Any], vclass: str) -> dict[str, Any]:
		def fails(ops: list[dict[str, Any]]) -> bool:
			if not ops:
				return False
			res = C04Runner({**case, 'ops': ops}).execute()
			return any(v['class'] == vclass and not v.get('known') for v in res['violations'])
		return {**case, 'ops': ddmin(case['ops'], fails, budget=40)}

	def sample_of(self, case: dict[str, Any]) -> Any:
		return {'shape': case['pool']['shape'], 'modules': case['pool']['modules'], 'flavour': case.get('flavour'), 'cache': str(case.get('cache')), 'ops': [{k: (v if k != 'text' else v[:40] + '...') for k, v in op.items()} for op in case['ops'][:16]]}


def exec_spot_checks(n: int, pool: dict[str, Any] | None = None, hashseeds: list[str] | None = None) -> dict[str, Any]:
	"""Fresh answers recomputed in exec'd interpreters under PYTHONHASHSEED 0, 1 and a seeded value must agree with each other (hash-seed clause)
	and with the fork-fresh answer."""
	from tranpsim.core import master_seed, rng_for
	rng = rng_for(master_seed(), 'C04', 'spot')
	done = 0
	mismatches: list[dict[str, Any]] = []
	seeds_used: list[str] = []
	for j in range(n):
		this_pool = pool or (pools.fixed_pool([0, 1, 3][j]) if j < 3 else pools.gen_pool(rng, allow_invalid=False))
		proj = Project(this_pool, tag='spot')
		try:
			spec = {'root': proj.sc.root, 'modules': this_pool['modules'], 'cache_enabled': False}
			answers = {}
			hs = list(hashseeds) if hashseeds else ['0', '1', str(rng.randrange(2, 4_000_000))]

			def one(h: str) -> dict[str, Any]:
				env = dict(os.environ, PYTHONHASHSEED=h, VERIF_REPO=boot.REPO)
				p = subprocess.run([sys.executable, '-m', 'tranpsim.fresh_exec', json.dumps(spec)], cwd=boot.VERIF_DIR, env=env, capture_output=True, text=True, timeout=300)
				if p.returncode != 0:
					raise HarnessError(f'exec-fresh interpreter failed: {p.stderr[-600:]}')
				return json.loads(p.stdout.strip().split('\n')[-1])

			from concurrent.futures import ThreadPoolExecutor
			with ThreadPoolExecutor(max_workers=3) as tp:
				for h, a in zip(hs, tp.map(one, hs)):
					answers[h] = a
					seeds_used.append(h)
			rec = sim_process(proj.sc.root, session_task('runner', this_pool['modules'], [{'op': 'transpile', 'm': m} for m in this_pool['modules']], False))
			fork = {m: r.get('text') for m, r in zip(this_pool['modules'], rec.get('result') or [])}
			answers['fork'] = fork
			base = answers[hs[0]]
			for h, a in answers.items():
				if a != base:
					m = next(m for m in this_pool['modules'] if a.get(m) != base.get(m))
					mismatches.append({'case': {'pool': this_pool, 'ops': [], 'kind': 'hashseed', 'hashseeds': hs}, 'detail': {'hashseed_or_fork': h, 'module': m, **line_diff(a.get(m), base.get(m))}})
			done += 1
		finally:
			proj.destroy()
	return {'pools': done, 'interpreters': len(seeds_used), 'hash_seeds': sorted(set(seeds_used)), 'mismatches': mismatches}
