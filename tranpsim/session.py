"""session-sim: one live tranp process answers a seeded sequence of operations; every answer is compared with a fresh process.

Runs inside a forked child (tasks below); observations that must not perturb the live process are taken in a forked grandchild.
"""
import json
import os
from typing import Any

from tranpsim import observers, tasks
from tranpsim.proc import describe_exception


def fork_observe(fn: Any) -> Any:
	"""Non-perturbing observation: compute fn() in a grandchild and return its JSON-able result."""
	rfd, wfd = os.pipe()
	pid = os.fork()
	if pid == 0:
		code = 0
		try:
			os.close(rfd)
			try:
				doc = {'ok': fn()}
			except BaseException as e:
				doc = {'err': describe_exception(e)['cls']}
			with os.fdopen(wfd, 'w') as out:
				json.dump(doc, out, default=str)
		except BaseException:
			code = 3
		finally:
			os._exit(code)
	os.close(wfd)
	with os.fdopen(rfd) as f:
		raw = f.read()
	os.waitpid(pid, 0)
	return json.loads(raw) if raw else {'err': 'observer died'}


def module_observation(app: Any, module_path: str) -> dict[str, Any]:
	"""Digest of a module's node classes per path and of its symbol rows."""
	from rogw.tranp.semantics.reflection.db import SymbolDB
	from rogw.tranp.syntax.ast.entrypoints import Entrypoints
	from rogw.tranp.syntax.ast.finder import ASTFinder
	from rogw.tranp.syntax.ast.parser import SyntaxParser
	root = app.resolve(SyntaxParser)(module_path)
	entrypoint = app.resolve(Entrypoints).load(module_path)
	rows = []
	for p in ASTFinder().full_pathfy(root):
		try:
			node = entrypoint.whole_by(p) if p != entrypoint.full_path else entrypoint
			rows.append([p, type(node).__name__])
		except Exception as e:
			rows.append([p, f'!{type(e).__name__}'])
	db = app.resolve(SymbolDB)
	syms = observers.symbols_dump(db, module_path)
	return {'nodes': observers._dg(rows), 'symbols': observers._dg(syms), 'n_nodes': len(rows), 'n_symbols': len(syms), 'completed': db.completed(module_path)}


def _make_interactive(locator: Any) -> Any:
	from rogw.tranp.bin.transpile import Interactive
	return Interactive(locator)


def _make_runner(invoker: Any) -> Any:
	from rogw.tranp.bin.transpile import Runner
	return invoker(Runner)


def annotate_factories() -> None:
	from rogw.tranp.lang.locator import Invoker, Locator
	_make_interactive.__annotations__ = {'locator': Locator}
	_make_runner.__annotations__ = {'invoker': Invoker}


def session_task(flavour: str, modules: list[str], ops: list[dict[str, Any]], cache_enabled: bool | None):
	"""ops: load / transpile / unload / submit / runner / isolate(op) ... -> list of per-op results."""
	def task(seams: Any) -> list[dict[str, Any]]:
		from rogw.tranp.module.modules import Modules
		from rogw.tranp.module.types import ModulePath, ModulePaths
		from rogw.tranp.transpiler.types import ITranspiler
		annotate_factories()
		app = tasks.make_app(modules, force=True, cache_enabled=cache_enabled)
		inter = None
		if flavour == 'interactive':
			inter = app.run(_make_interactive)
			mods, tr = inter.modules, inter.transpiler
		else:
			mods = app.resolve(Modules)
			tr = app.resolve(ITranspiler)
		runner = None
		results: list[dict[str, Any]] = []

		def loaded_pool() -> list[str]:
			return [m.path for m in mods.loaded() if m.path in modules]

		for op in ops:
			kind = op['op']
			r: dict[str, Any] = {}
			before: dict[str, Any] | None = None
			watch: list[str] = []
			if op.get('isolate'):
				watch = [m for m in loaded_pool() if m != op.get('m') and m not in op.get('isolate_skip', [])]
				before = {m: fork_observe(lambda m=m: module_observation(app, m)) for m in watch}
			try:
				if kind == 'load':
					mods.load(op['m'])
				elif kind == 'transpile':
					r['text'] = tr.transpile(mods.load(op['m']).entrypoint)
				elif kind == 'unload':
					mods.unload(op['m'])
				elif kind == 'submit':
					main = inter.rebuild_module(op['text'])
					r['text'] = tr.transpile(main.entrypoint)
				elif kind == 'runner':
					if runner is None:
						runner = app.run(_make_runner)
					runner.module_paths = ModulePaths([ModulePath(m, 'py') for m in op['order']])
					runner.config.force = bool(op.get('force', True))
					runner.run()
					r['files'] = tasks.read_outputs('out')
				else:
					raise ValueError(kind)
				r['status'] = 'ok'
			except BaseException as e:  # noqa: BLE001
				r['status'] = 'error'
				r['error'] = describe_exception(e)
			if before is not None:
				after = {m: fork_observe(lambda m=m: module_observation(app, m)) for m in watch if m in loaded_pool() or True}
				r['isolation'] = {m: [before[m], after[m]] for m in watch}
			r['loaded'] = loaded_pool()
			results.append(r)
		return results
	return task


def fresh_task(flavour: str, modules: list[str], op: dict[str, Any], cache_enabled: bool | None):
	"""The same request in a fresh process that did nothing else."""
	return session_task(flavour, modules, [{k: v for k, v in op.items() if k not in ('isolate', 'isolate_skip')}], cache_enabled)
