"""Valid __main__ submissions for the interactive loop (no blank lines: an empty line ends a submission)."""

STANDALONE = [
'''def add(a: int, b: int) -> int:
	c = a + b
	return c * 2''',
'''class Point:
	x: int
	y: int
	def __init__(self, x: int, y: int) -> None:
		self.x = x
		self.y = y
	def norm1(self) -> int:
		return self.x + self.y
def use(k: int) -> int:
	p = Point(k, 2)
	n = p.norm1()
	return n''',
'''from enum import Enum
class Color(Enum):
	Red = 0
	Green = 1
def pick(k: int) -> Color:
	if k > 0:
		return Color.Red
	else:
		return Color.Green''',
'''def loop(n: int) -> list[int]:
	xs: list[int] = []
	for i in range(n):
		if i % 2 == 0:
			xs.append(i)
		else:
			continue
	while len(xs) > 3:
		xs.pop()
	return xs''',
'''def table(keys: list[str]) -> dict[str, int]:
	d: dict[str, int] = {}
	for i, key in enumerate(keys):
		d[key] = i
	for key, val in d.items():
		print(key, val)
	return d''',
'''def comp(xs: list[int]) -> list[int]:
	ys = [x * 2 for x in xs if x > 1]
	t = (1, 'a')
	s = 'lit'
	n = len(s) if xs else 0
	return ys''',
'''class Base:
	n: int
	def __init__(self) -> None:
		self.n = 0
	def get(self) -> int:
		return self.n
class Sub(Base):
	def __init__(self) -> None:
		super().__init__()
	def get(self) -> int:
		return self.n + 1
def run(k: int) -> int:
	s = Sub()
	return s.get()''',
'''def guard(k: int) -> int:
	try:
		if k < 0:
			raise Exception('neg')
		return k
	except Exception as e:
		return 0''',
'''from typing import Generic, TypeVar
T = TypeVar('T')
class GBase(Generic[T]):
	value: T
	def __init__(self, value: T) -> None:
		self.value = value
class IntChild(GBase[int]):
	def __init__(self, value: int) -> None:
		super().__init__(value)
	def twice(self) -> int:
		return self.value + self.value
def use_child(k: int) -> int:
	c = IntChild(k)
	return c.twice()''',
'''from typing import Generic, TypeVar
T = TypeVar('T')
class GBase2(Generic[T]):
	value: T
	def __init__(self, value: T) -> None:
		self.value = value
class IntChild2(GBase2[int]):
	def once(self) -> int:
		return self.value
class Other:
	n: int
	def __init__(self) -> None:
		self.n = 1''',
'''class Alpha:
	def value(self) -> int:
		return 1
def run() -> None:
	a = Alpha()
	print(a.value())''',
'''class Beta:
	def value(self) -> int:
		return 1
def run() -> None:
	a = Beta()
	print(a.value())''',
]

# programs whose imports form a cycle through the submitted module itself
CYCLIC = [
'''from __main__ import A
class A:
	n: int
	def __init__(self) -> None:
		self.n = 0
def use_a(k: int) -> int:
	a = A()
	return a.n + k''',
]

# well-formed but ill-typed / unsupported programs
ILL_TYPED = [
'def f(k: int) -> int:\n\treturn undefined_name + k',
'def f(k: int) -> int:\n\ts = \'x\'\n\treturn s.no_such_method()',
'class A:\n\tn: int\n\tdef __init__(self) -> None:\n\t\tself.n = 0\ndef f() -> int:\n\ta = A()\n\treturn a.missing',
'def g(a: int) -> int:\n\treturn a\ndef f() -> int:\n\treturn g(1, 2, 3).real',
'def f(k):\n\treturn k',
'def f(k: int) -> int:\n\tglobal zz\n\treturn k',
'async def f(k: int) -> int:\n\treturn k',
'def f(k: int) -> int:\n\tx = k.bit_length().foo.bar\n\treturn x',
'from nowhere.nothing import Missing\ndef f(k: Missing) -> int:\n\treturn 1',
'import os\ndef f() -> int:\n\treturn 1',
'def f(k: int) -> Unknown:\n\treturn k',
'def f(self, k: int) -> int:\n\treturn self.k',
'class A:\n\tdef m(self) -> int:\n\t\treturn self.nothing\ndef f() -> int:\n\treturn A().m()',
'x: int = \'a\'\ny = x + 1',
'def f(xs: list[int]) -> int:\n\tfor a, b in xs:\n\t\tprint(a)\n\treturn 0',
'def f() -> int:\n\treturn [1, 2][\'a\']',
'class A(Missing):\n\tpass',
'def f() -> int:\n\tlambda x: x\n\treturn 1',
'@unknown_decorator\ndef f() -> int:\n\treturn 1',
'def f(d: dict[str, int]) -> int:\n\treturn d.get(1, 2, 3, 4)',
	# errors reported on nodes without a source position (empty slots): parameters without annotation, star parameters
	'def f(a) -> None:\n\tpass',
	'def f(k: int, *a) -> int:\n\treturn k',
	'def f(k: int, **kw) -> int:\n\treturn k',
	'class A:\n\tdef m(self, a) -> int:\n\t\treturn 1',
	'def f(a, b=1) -> None:\n\tx = a',
	'def g() -> None:\n\tpass\ndef f() -> int:\n\tx = g()\n\treturn x.y',
	'class A:\n\tn: int\ndef f() -> int:\n\ta = A()\n\treturn a.n.m',
	'def f(k: int) -> int:\n\tfor i in k:\n\t\tprint(i)\n\treturn 0',
	'def f() -> None:\n\twith open() as g:\n\t\tpass',
	'def f(xs: list[int]) -> int:\n\ta, b, c = xs\n\treturn a',
	# well-formed literals no node class accepts (octal / binary / complex), nested and as bare module-level expression statements
	'0o17',
	'def f(k: int) -> int:\n\treturn k\n0b101',
	'1j',
	'def f(k: int) -> int:\n\tn: int = 0b101\n\treturn n + 0o7',
	'x: int = 1\nx.y.z',
	'import a.b.c',
	# imports whose candidate path cannot even be stat()ed as "missing": through a regular file, a symlink loop, a name longer than NAME_MAX
	'from src.NOTES.dep import f\ndef g() -> int:\n\treturn f()',
	'from src.selfloop import f\ndef g() -> int:\n\treturn f()',
	'from src.' + 'm' * 300 + ' import f\ndef g() -> int:\n\treturn f()',
	'from src.' + '\u65e5' * 90 + ' import f\ndef g() -> int:\n\treturn f()',
]
