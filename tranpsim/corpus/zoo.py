"""Parse-only corpus for query-sim (C10): texts that exercise tags with several candidate node classes and unusual nesting.
They only have to parse with data/grammar.lark; most would not transpile."""

ZOO = {
'src.zoo_nested': '''class Outer:
	n: int

	def __init__(self) -> None:
		self.n = 0

	@classmethod
	def make(cls) -> 'Outer':
		return cls()

	def run(self, k: int) -> int:
		def step(x: int) -> int:
			return x + 1

		def bound(self, y: int) -> int:
			return y

		def twice(z: int) -> int:
			def inner(self, w: int) -> int:
				return w
			return step(z) * 2

		def __init__(self) -> None:
			pass

		@classmethod
		def cm(cls) -> int:
			return 1
		return twice(step(k))


def free(a: int) -> int:
	def bound(self, y: int) -> int:
		return y

	def plain(y: int) -> int:
		return y
	return plain(a)
''',
'src.zoo_flow': '''from enum import Enum


class E(Enum):
	A = 0
	B = 1


class C:
	xs: list[int]
	d: dict[str, int]

	def __init__(self) -> None:
		self.xs = []
		self.d = {}

	def walk(self) -> int:
		t = 0
		for i, x in enumerate(self.xs):
			if x > 1:
				t += x
			elif x < 0:
				continue
			else:
				break
		while t > 10:
			t -= 1
		try:
			t = t / 1
		except Exception as e:
			raise RuntimeError('x') from e
		ys = [y * 2 for y in self.xs if y]
		kv = {k: v for k, v in self.d.items()}
		f = lambda a, b: a + b
		g = f(1, 2) if ys else 0
		s = 'a' + 'b'
		u = (1, 'a', 2.5)
		a, b = 1, 2
		del ys
		assert t >= 0, 'neg'
		return g


def top() -> None:
	pass
''',
'src.zoo_types': '''from collections.abc import Callable
from typing import Generic, TypeAlias, TypeVar

T = TypeVar('T')
Alias: TypeAlias = dict[str, list[int]]


class G(Generic[T]):
	f: Callable[[T, int], None]
	g: 'Callable[[], G[T]] | None'
	h: tuple[int, str] | None
	i: dict[str, list[tuple[int, T]]]

	def m(self, a: 'T | None' = None, *args: int, **kwargs: str) -> 'list[T] | None':
		return None


def k(a: int = 1, b: str = 's', c: float = -1.5, d: 'G[int] | None' = None) -> G[int]:
	return G[int]()
''',
# adjacent single children whose tags extend each other textually (list / list_comp, dict / dict_comp), in both orders
'src.zoo_prefix': '''def lc(ns: list[int]) -> tuple[list[int], list[int]]:
	return [], [n for n in ns]


def dc(ns: list[int]) -> tuple[dict[int, int], dict[int, int]]:
	return {}, {n: n for n in ns}


def cl(ns: list[int]) -> tuple[list[int], list[int]]:
	a, b = [n for n in ns], [1, 2]
	c, d = {1: 2}, {n: n for n in ns}
	return [n for n in ns], []


def wide(p0: int, p1: int, p2: int, p3: int, p4: int, p5: int, p6: int, p7: int, p8: int, p9: int, p10: int, p11: int, p12: int) -> int:
	return max(p0, p1, p2, p3, p4, p5, p6, p7, p8, p9, p10, p11, p12)
''',
}
