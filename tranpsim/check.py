"""Entry point: python -m tranpsim.check <ID> [--tier quick|thorough] [--replay FILE]"""
import sys

from tranpsim import boot

ENGINES = {
	'C04': ('tranpsim.c04', 'C04'),
	'C05': ('tranpsim.c05', 'C05'),
	'C06': ('tranpsim.c06', 'C06'),
	'C07': ('tranpsim.c07', 'C07'),
	'C09': ('tranpsim.c09', 'C09'),
	'C10': ('tranpsim.c10', 'C10'),
	'C14': ('tranpsim.c14', 'C14'),
	'C15': ('tranpsim.c15', 'C15'),
	'C19': ('tranpsim.c19', 'C19'),
}


def main() -> int:
	if len(sys.argv) < 2 or sys.argv[1] not in ENGINES:
		print(f'usage: python -m tranpsim.check <{"|".join(sorted(ENGINES))}> [--tier quick|thorough] [--replay FILE]', file=sys.stderr)
		return 2
	boot.pin_hashseed()
	boot.boot()
	from importlib import import_module
	from tranpsim import framework
	mod, cls = ENGINES[sys.argv[1]]
	eng = getattr(import_module(mod), cls)()
	return framework.run(eng, sys.argv[2:])


if __name__ == '__main__':
	sys.exit(main())
