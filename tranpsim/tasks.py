"""Code that runs *inside* a simulated tranp process (forked child, cwd = scratch project).

Everything here builds the application exactly as rogw/tranp/bin/transpile.py's __main__ does:
Args -> TranspileApp.definitions -> App(definitions).run(...). Overrides go through the documented DI definitions map.
"""
import hashlib
import os
from typing import Any


def make_app(module_names: list[str] | None, force: bool, cache_enabled: bool | None = None, extra_defs: dict[str, Any] | None = None, versions: dict[str, str] | None = None) -> Any:
	from rogw.tranp.app.app import App
	from rogw.tranp.bin.transpile import Args, TranspileApp
	from rogw.tranp.cache.cache import CacheSetting
	from rogw.tranp.lang.module import to_fullyname
	from rogw.tranp.module.types import ModulePath, ModulePaths

	if versions:
		from rogw.tranp.data.version import Versions
		for key, value in versions.items():
			setattr(Versions, key, value)

	argv = ['-c', 'config.yml'] + (['-f'] if force else [])
	definitions = TranspileApp.definitions(Args(argv))
	if module_names is not None:
		paths = [ModulePath(name, 'py') for name in module_names]
		definitions[to_fullyname(ModulePaths)] = lambda: ModulePaths(paths)
	if cache_enabled is not None:
		definitions[to_fullyname(CacheSetting)] = lambda: CacheSetting(basedir='.cache/tranp', enabled=cache_enabled)
	if extra_defs:
		definitions.update(extra_defs)
	return App(definitions)


def read_outputs(root: str = 'out') -> dict[str, str]:
	outs: dict[str, str] = {}
	if not os.path.isdir(root):
		return outs
	for dirpath, dirnames, filenames in os.walk(root):
		dirnames.sort()
		for name in sorted(filenames):
			full = os.path.join(dirpath, name)
			with open(full, 'rb') as f:
				outs[os.path.relpath(full, '.')] = f.read().decode('utf-8', 'replace')
	return outs


def runner_task(module_names: list[str] | None, force: bool = True, cache_enabled: bool | None = None, versions: dict[str, str] | None = None, observe: Any = None):
	"""The command-line run. Returns {'outputs': {relpath: text}} (+ observations)."""
	def task(seams: Any) -> dict[str, Any]:
		from rogw.tranp.bin.transpile import TranspileApp
		app = make_app(module_names, force, cache_enabled, versions=versions)
		app.run(TranspileApp.run)
		result: dict[str, Any] = {}
		if observe is not None:
			result['observed'] = observe(app, seams)
		return result
	return task


def loop_task(plan: list[tuple], module_names: list[str] | None, cache_enabled: bool | None = True):
	"""A build loop: several command-line runs issued from ONE interpreter (a watcher, a test session), sources edited in between.
	plan = [('run',) | ('write', relpath, bytes, mtime_ns)]."""
	def task(seams: Any) -> dict[str, Any]:
		from rogw.tranp.bin.transpile import TranspileApp
		from tranpsim.proc import describe_exception
		k = 0
		runs: list[dict[str, Any]] = []
		for st in plan:
			if st[0] == 'write':
				with seams._open(st[1], 'wb') as f:
					f.write(st[2])
				os.utime(st[1], ns=(st[3], st[3]))
			else:
				seams.event('step', k)
				k += 1
				# a loop survives a failing run (it reports and waits for the next edit), so every run has its own outcome
				try:
					make_app(module_names, True, cache_enabled).run(TranspileApp.run)
					runs.append({'status': 'ok'})
				except Exception as e:  # noqa: BLE001
					runs.append({'status': 'error', 'error': describe_exception(e)})
		return {'runs': runs}
	return task


def md5(text: str) -> str:
	return hashlib.md5(text.encode('utf-8')).hexdigest()
