"""C09 — every handler receives exactly the results of its own children (walk-sim).

Two modes. 'identity': a real Procedure whose only handler returns its node, driven by a schedule that starts nested exec()
runs from inside handlers (re-entrancy) and makes some of them fail (injected fault) while the outer handler catches the error
and continues. 'monitor': the real Py2Cpp and Reflections procedures transpiling corpus modules, with every handler wrapped by a
shadow-stack monitor (real re-entrancy: handlers call reflections.type_of / nested transpiles)."""
import random
from typing import Any

from tranpsim import pools, tasks
from tranpsim.core import HarnessError, ddmin, digest
from tranpsim.framework import Engine
from tranpsim.persist import Project, library_seed
from tranpsim.proc import sim_process

LIB_MODULES = ['typing', 'enum', 'collections.abc', 'rogw.tranp.compatible.libralies.type', 'rogw.tranp.compatible.libralies.classes']


def nkey(n: Any) -> list[str]:
	return [n.module_path, n.full_path, n.classification]


_DECLARED: dict[type, list[str] | None] = {}


def declared_expandables(cls: type) -> list[str] | None:
	"""The expandable properties as declared through the embed metadata, base classes first — computed without Node.prop_keys' class-level cache."""
	if cls in _DECLARED:
		return _DECLARED[cls]
	try:
		from rogw.tranp.syntax.node.embed import EmbedKeys, Meta
		from rogw.tranp.syntax.node.node import Node
		if cls.__name__ == 'Proxy':
			cls_ = cls.__mro__[1]
		else:
			cls_ = cls
		keys: list[str] = []
		for ctor in reversed([c for c in cls_.__mro__ if isinstance(c, type) and issubclass(c, Node) and c is not Node]):
			meta = Meta.dig_for_method(Node, ctor, EmbedKeys.Expandable, value_type=bool)
			keys += [name for name, _ in meta.items()]
		_DECLARED[cls] = keys
	except Exception:
		_DECLARED[cls] = None
	return _DECLARED[cls]


def answer_tokens(n: Any) -> str:
	try:
		return str(n.tokens)
	except Exception as e:
		return f'!{type(e).__name__}'


class Monitor:
	"""Shadow stack per exec frame: an independent re-statement of 'the handler gets the results of the nodes its properties yield'."""

	def __init__(self) -> None:
		self.frames: list[list[tuple[list[str], Any, Any]]] = []
		self.diffs: list[dict[str, Any]] = []
		self.calls = 0
		self.max_depth = 0
		self.stats: dict[str, int] = {}
		self.log: list[Any] = []

	def stat(self, k: str, n: int = 1) -> None:
		self.stats[k] = self.stats.get(k, 0) + n

	def push_frame(self) -> None:
		self.frames.append([])
		self.max_depth = max(self.max_depth, len(self.frames))

	def pop_frame(self) -> list[tuple[list[str], Any, Any]]:
		return self.frames.pop()

	def check_event(self, node: Any, event: dict[str, Any]) -> None:
		"""Called at handler entry: compare the received event with the node's own properties and the shadow stack."""
		self.calls += 1
		frame = self.frames[-1]
		keys = list(node.prop_keys())
		declared = declared_expandables(type(node))
		if declared is not None and declared != keys:
			self.diffs.append({'class': 'prop-keys-differ-from-declared-expandables', 'detail': {'node': nkey(node), 'prop_keys': keys, 'declared_in_class_hierarchy': declared}})
			return
		got_keys = [k for k in event if k != 'node']
		if sorted(got_keys) != sorted(keys):
			self.diffs.append({'class': 'event-keys-differ-from-expandable-properties', 'detail': {'node': nkey(node), 'event': got_keys, 'properties': keys}})
			return
		for key in reversed(keys):
			want = getattr(node, key)
			is_list = isinstance(want, list)
			val = event[key]
			if is_list != isinstance(val, list):
				self.diffs.append({'class': 'single-and-list-confused', 'detail': {'node': nkey(node), 'property': key, 'expected_list': is_list}})
				return
			want_nodes = want if is_list else [want]
			vals = val if is_list else [val]
			if is_list:
				self.stat('list property of length 0' if not want_nodes else ('list property of length >= 2' if len(want_nodes) >= 2 else 'list property of length 1'))
			if len(want_nodes) != len(vals):
				self.diffs.append({'class': 'wrong-number-of-child-results', 'detail': {'node': nkey(node), 'property': key, 'children': len(want_nodes), 'received': len(vals)}})
				return
			if len(frame) < len(want_nodes):
				self.diffs.append({'class': 'child-results-missing', 'detail': {'node': nkey(node), 'property': key, 'children': len(want_nodes), 'available': len(frame)}})
				return
			popped = [frame.pop() for _ in want_nodes]
			popped.reverse()
			for child, (ck, cres, cnode), v in zip(want_nodes, popped, vals):
				proxy = type(child).__name__ == 'Proxy'
				if child.classification == 'empty' or proxy:
					self.stat('Empty/proxy child')
				if ck != nkey(child):
					self.diffs.append({'class': 'result-of-another-node-delivered', 'detail': {'node': nkey(node), 'property': key, 'child': nkey(child), 'result_came_from': ck}})
					return
				# same address is not enough: the result must have been computed for THIS node object (a rebuilt module has new nodes at the old paths);
				# virtual proxies are re-created on every property access and are compared by their tokens instead
				if (not proxy and cnode is not child) or (proxy and answer_tokens(cnode) != answer_tokens(child)):
					self.diffs.append({'class': 'result-of-a-stale-node-delivered', 'detail': {'node': nkey(node), 'property': key, 'child': nkey(child), 'child_tokens': answer_tokens(child)[:80], 'processed_tokens': answer_tokens(cnode)[:80]}})
					return
				if v is not cres:
					self.diffs.append({'class': 'child-result-altered', 'detail': {'node': nkey(node), 'property': key, 'child': nkey(child), 'received': str(v)[:80], 'computed': str(cres)[:80]}})
					return

	def record(self, node: Any, result: Any) -> None:
		self.frames[-1].append((nkey(node), result, node))


def wrap_procedure(proc: Any, mon: Monitor, handlers: dict[str, Any], tag: str) -> None:
	"""Re-register every handler behind the monitor (public API: clear_handler/on) and frame exec()."""
	proc.clear_handler()

	def make(action: str, handler: Any) -> Any:
		def wrapped(**event: Any) -> Any:
			node = event['node']
			mon.check_event(node, event)
			# the frame may be used re-entrantly by the handler (nested exec): results of nested runs must not leak into it
			depth = len(mon.frames)
			size = len(mon.frames[-1])
			result = handler(**event)
			if len(mon.frames) != depth or len(mon.frames[-1]) != size:
				mon.diffs.append({'class': 'nested-run-disturbed-the-outer-frame', 'detail': {'node': nkey(node), 'procedure': tag, 'frames': [depth, len(mon.frames)], 'frame_size': [size, len(mon.frames[-1]) if mon.frames else -1]}})
			mon.record(node, result)
			return result
		return wrapped
	for action, handler in handlers.items():
		proc.on(action, make(action, handler))
	orig_exec = proc.exec

	def exec_(root: Any) -> Any:
		mon.push_frame()
		if len(mon.frames) >= 2:
			mon.stat(f'nested exec depth {min(len(mon.frames), 4)}{"+" if len(mon.frames) > 4 else ""} ({tag})')
		ok = False
		try:
			result = orig_exec(root)
			ok = True
		finally:
			frame = mon.pop_frame()
			if not ok:
				mon.stat(f'exec failed ({tag})')
		if len(frame) != 1 or frame[0][0] != nkey(root) or frame[0][1] is not result or frame[0][2] is not root:
			mon.diffs.append({'class': 'exec-does-not-end-with-exactly-the-root-result', 'detail': {'root': nkey(root), 'procedure': tag, 'left_on_shadow_stack': [f[0] for f in frame][:4]}})
		return result
	proc.exec = exec_


# ---------------------------------------------------------------------------------------------
# identity mode with a nesting / failure schedule


def identity_task(case: dict[str, Any]):
	def task(seams: Any) -> dict[str, Any]:
		from rogw.tranp.errors import Errors
		from rogw.tranp.module.modules import Modules
		from rogw.tranp.semantics.procedure import Procedure
		from rogw.tranp.syntax.ast.entrypoints import Entrypoints
		app = tasks.make_app(case['modules'], force=True, cache_enabled=None)
		# nodes only: the identity walk needs no symbols (and Modules.load of a module the libraries import fails with Errors.Never)
		entry = app.resolve(Entrypoints).load(case['module'])
		flat = [*entry.procedural(), entry]
		schedule = {s['at']: s for s in case.get('schedule', [])}
		mon = Monitor()
		proc: Any = Procedure()
		state = {'calls': 0, 'raise_in': [], 'events': [], 'fired': 0}

		def on_fallback(**event: Any) -> Any:
			node = event['node']
			k = state['calls']
			state['calls'] += 1
			state['events'].append([len(mon.frames), node.full_path, node.classification])
			if state['raise_in'] and state['raise_in'][-1] is not None:
				state['raise_in'][-1] -= 1
				if state['raise_in'][-1] < 0:
					state['raise_in'][-1] = None
					state['fired'] += 1
					mon.stat('handler-raise fired')
					raise RuntimeError('injected handler failure')
			plan = schedule.get(k)
			if plan is not None and len(mon.frames) <= plan.get('max_depth', 3):
				sub = flat[plan['root'] % len(flat)]
				state['raise_in'].append(plan.get('raise_after'))
				fired_before = state['fired']
				try:
					nested = proc.exec(sub)
					if nested is not sub:
						mon.diffs.append({'class': 'nested-exec-returned-another-node', 'detail': {'root': nkey(sub), 'got': nkey(nested) if hasattr(nested, 'full_path') else str(nested)}})
					mon.stat('nested run completed')
				except Errors.Error as e:
					if state['fired'] == fired_before:
						# nothing was injected into this nested run: it failed because of what an earlier (failed) run left behind
						mon.diffs.append({'class': 'nested-run-fails-without-an-injected-fault', 'detail': {'root': nkey(sub), 'error': type(e).__name__, 'msg': str(e)[:160]}})
					mon.stat('outer handler caught the nested failure and continued')
				finally:
					state['raise_in'].pop()
			return node

		wrap_procedure(proc, mon, {'on_fallback': on_fallback}, 'identity')
		outcome: dict[str, Any] = {}
		root = flat[case.get('root', -1) % len(flat)] if case.get('root') is not None else entry
		if case.get('outer_raise_after') is not None:
			# a whole run fails through an injected handler failure (results of elder siblings are pending); the same procedure is then used again
			saved = dict(schedule)
			schedule.clear()
			state['raise_in'].append(case['outer_raise_after'])
			try:
				proc.exec(root)
				mon.stat('outer injected failure did not fire (walk shorter than the injection point)')
			except Errors.Error:
				mon.stat('outer run failed by injection; procedure reused afterwards')
			finally:
				state['raise_in'].pop()
			schedule.update(saved)
			state['events'] = []
		try:
			res = proc.exec(root)
			outcome['status'] = 'ok'
			if res is not root:
				mon.diffs.append({'class': 'exec-returned-another-node', 'detail': {'root': nkey(root)}})
		except BaseException as e:  # noqa: BLE001
			from tranpsim.proc import describe_exception
			d = describe_exception(e)
			outcome = {'status': 'error', 'cls': d['cls'], 'msg': d['msg'][:200]}
			if any(s.get('raise_after') is not None for s in case.get('schedule', [])) or True:
				mon.diffs.append({'class': 'outer-run-fails', 'detail': {'error': d['cls'], 'msg': d['msg'][:200], 'site': d['site'], 'nested_failures': mon.stats.get('outer handler caught the nested failure and continued', 0)}})
		first_log = list(state['events'])
		# the procedure can run the same tree again (no schedule) with the same event log as a brand-new procedure
		if not mon.diffs:
			schedule.clear()
			state['events'] = []
			again_ok = True
			try:
				proc.exec(root)
			except BaseException as e:  # noqa: BLE001
				again_ok = False
				mon.diffs.append({'class': 'second-run-on-the-same-procedure-fails', 'detail': {'error': type(e).__name__, 'msg': str(e)[:200]}})
			second = list(state['events'])
			fresh_mon = Monitor()
			fresh: Any = Procedure()
			events2: list[Any] = []

			def plain(**event: Any) -> Any:
				events2.append([1, event['node'].full_path, event['node'].classification])
				return event['node']
			wrap_procedure(fresh, fresh_mon, {'on_fallback': plain}, 'fresh')
			fresh.exec(root)
			if again_ok and second != events2:
				mon.diffs.append({'class': 'second-run-differs-from-a-fresh-procedure', 'detail': {'second': len(second), 'fresh': len(events2)}})
		return {'diffs': mon.diffs[:3], 'stats': mon.stats, 'calls': mon.calls, 'max_depth': mon.max_depth, 'outcome': outcome, 'log': digest(first_log), 'n_flat': len(flat), 'classes': sorted({e[2] for e in first_log})}
	return task


# ---------------------------------------------------------------------------------------------
# rebuild mode: one long-lived Procedure, the module under it is rebuilt from other text between runs


def rebuild_task(case: dict[str, Any]):
	def task(seams: Any) -> dict[str, Any]:
		from rogw.tranp.errors import Errors
		from rogw.tranp.implements.cpp.transpiler.py2cpp import Py2Cpp
		from rogw.tranp.semantics.procedure import Procedure
		from rogw.tranp.semantics.reflections import ProceduralResolver, Reflections
		from tranpsim.session import _make_interactive, annotate_factories
		annotate_factories()
		app = tasks.make_app(case['modules'], force=True, cache_enabled=None)
		inter = app.run(_make_interactive)
		mon = Monitor()
		proc: Any = Procedure()
		events: list[Any] = []

		def on_fallback(**event: Any) -> Any:
			events.append([event['node'].full_path, event['node'].classification])
			return event['node']
		wrap_procedure(proc, mon, {'on_fallback': on_fallback}, 'identity')
		mon_t, mon_r = Monitor(), Monitor()
		tr = inter.transpiler
		wrap_procedure(getattr(tr, '_Py2Cpp__procedure'), mon_t, {key: getattr(tr, key) for key in Py2Cpp.__dict__ if key.startswith('on_')}, 'py2cpp')
		resolver = getattr(app.resolve(Reflections), '_Reflections__resolver')
		wrap_procedure(resolver.procedure, mon_r, {key: getattr(resolver, key) for key in ProceduralResolver.__dict__ if key.startswith('on_')}, 'reflections')
		outcomes = []
		first_outcome: dict[str, Any] = {}
		for text in case['texts']:
			try:
				main = inter.rebuild_module(text)
			except Errors.Error as e:
				outcomes.append(['rebuild', type(e).__name__])
				continue
			root = main.entrypoint
			try:
				res = proc.exec(root)
				outcomes.append(['identity', 'ok' if res is root else 'other-root'])
				if res is not root:
					mon.diffs.append({'class': 'exec-returned-another-node', 'detail': {'root': nkey(root)}})
			except Errors.Error as e:
				outcomes.append(['identity', type(e).__name__])
				mon.diffs.append({'class': 'identity-walk-fails-after-rebuild', 'detail': {'error': type(e).__name__, 'msg': str(e)[:160]}})
			try:
				out = tr.transpile(root)
				outcomes.append(['transpile', 'ok', digest(out)])
			except Errors.Error as e:
				outcomes.append(['transpile', type(e).__name__])
			# the same text must be answered the same way later in the session (an erroneous request in between must not disturb later runs)
			first = first_outcome.setdefault(text, outcomes[-1])
			if first != outcomes[-1]:
				mon.diffs.append({'class': 'same-text-answered-differently-later-in-the-session', 'detail': {'text': text[:120], 'first': first[:2], 'later': outcomes[-1][:2]}})
			mon.stat('module rebuilt under a long-lived procedure')
		diffs = mon.diffs[:2] + [{**d, 'detail': {**d['detail'], 'procedure': 'py2cpp'}} for d in mon_t.diffs[:2]] + [{**d, 'detail': {**d['detail'], 'procedure': 'reflections'}} for d in mon_r.diffs[:2]]
		stats = dict(mon.stats)
		for m2 in (mon_t, mon_r):
			for k, v in m2.stats.items():
				stats[k] = stats.get(k, 0) + v
		return {'diffs': diffs, 'stats': stats, 'calls': mon.calls + mon_t.calls + mon_r.calls, 'max_depth': max(mon.max_depth, mon_t.max_depth, mon_r.max_depth), 'outcome': outcomes, 'log': digest(outcomes), 'n_flat': 0, 'classes': sorted({e[1] for e in events})}
	return task


# ---------------------------------------------------------------------------------------------
# monitor mode: real Py2Cpp + Reflections procedures


def monitor_task(case: dict[str, Any]):
	def task(seams: Any) -> dict[str, Any]:
		from rogw.tranp.implements.cpp.transpiler.py2cpp import Py2Cpp
		from rogw.tranp.module.modules import Modules
		from rogw.tranp.semantics.reflections import ProceduralResolver, Reflections
		from rogw.tranp.transpiler.types import ITranspiler
		app = tasks.make_app(case['modules'], force=True, cache_enabled=None)
		mods = app.resolve(Modules)
		tr = app.resolve(ITranspiler)
		refl = app.resolve(Reflections)
		mon_t, mon_r = Monitor(), Monitor()
		proc_t = getattr(tr, '_Py2Cpp__procedure')
		wrap_procedure(proc_t, mon_t, {key: getattr(tr, key) for key in Py2Cpp.__dict__ if key.startswith('on_')}, 'py2cpp')
		resolver = getattr(refl, '_Reflections__resolver')
		wrap_procedure(resolver.procedure, mon_r, {key: getattr(resolver, key) for key in ProceduralResolver.__dict__ if key.startswith('on_')}, 'reflections')
		outcomes = []
		for m in case['targets']:
			try:
				text = tr.transpile(mods.load(m).entrypoint)
				outcomes.append([m, 'ok', digest(text)])
			except BaseException as e:  # noqa: BLE001
				outcomes.append([m, type(e).__name__, str(e)[:120]])
		diffs = [{**d, 'detail': {**d['detail'], 'procedure': 'py2cpp'}} for d in mon_t.diffs[:2]] + [{**d, 'detail': {**d['detail'], 'procedure': 'reflections'}} for d in mon_r.diffs[:2]]
		stats = dict(mon_t.stats)
		for k, v in mon_r.stats.items():
			stats[k] = stats.get(k, 0) + v
		return {'diffs': diffs, 'stats': stats, 'calls': mon_t.calls + mon_r.calls, 'max_depth': max(mon_t.max_depth, mon_r.max_depth), 'outcome': outcomes, 'log': digest(outcomes), 'n_flat': 0, 'classes': []}
	return task


class C09Runner:
	def __init__(self, case: dict[str, Any]) -> None:
		self.case = case

	def execute(self) -> dict[str, Any]:
		case = self.case
		pool = case['pool']
		proj = Project(pool, tag='c09')
		try:
			for m, v in (case.get('state') or {}).items():
				proj.set_variant(m, v, 10**9)
			try:
				seed = library_seed()
			except RuntimeError:
				seed = {}  # only an accelerator here: the trees come from the parser, a full run is not needed
			for rel, (content, mtime) in seed.items():
				proj.sc.write(rel, content, mtime)
			spec = {**case, 'modules': pool['modules']}
			task = {'identity': identity_task, 'monitor': monitor_task, 'rebuild': rebuild_task}[case['mode']](spec)
			rec = sim_process(proj.sc.root, task, timeout=300)
			if rec['status'] == 'timeout':
				return self.result([{'class': 'walk-does-not-terminate', 'detail': {}, 'known': None, 'sig': 'timeout'}], {})
			if rec['status'] != 'ok':
				raise HarnessError(f"walk process failed: {rec.get('error') or rec}")
			res = rec['result']
			vs = [{'class': d['class'], 'detail': d['detail'], 'known': None, 'sig': d['class']} for d in res['diffs']]
			return self.result(vs, res)
		finally:
			proj.destroy()

	def result(self, vs: list[dict[str, Any]], res: dict[str, Any]) -> dict[str, Any]:
		case = self.case
		stats = dict(res.get('stats') or {})
		stats['handler calls verified'] = res.get('calls', 0)
		counters = {'probes': stats, 'ops': {case['mode']: 1}, 'faults_fired': {'handler-raise': stats.get('handler-raise fired', 0), 'reentry': sum(v for k, v in stats.items() if k.startswith('nested exec depth'))}}
		distinct = []
		if case['mode'] == 'identity':
			for s in case.get('schedule', []):
				distinct.append(f"{case['module']}:{s['root'] % max(1, res.get('n_flat', 1))}:{s.get('max_depth')}:{s.get('raise_after') is not None}")
		elif case['mode'] == 'rebuild':
			distinct = [f"rebuild:{digest(a)}>{digest(b)}" for a, b in zip(case['texts'], case['texts'][1:])]
		else:
			distinct = [f"monitor:{m}:{digest(case.get('state'))}" for m in case.get('targets', [])]
		return {'violations': vs, 'counters': counters, 'distinct': distinct, 'states': [f"depth{res.get('max_depth', 0)}"] + list(res.get('classes', [])), 'log': res.get('log', ''), 'processes': 1, 'sim_time_s': 0.0}


class C09(Engine):
	prop = 'C09'
	rule = ('two kinds of case: (identity) a real Procedure whose only handler returns its node walks a corpus module (or a seeded subtree) under a schedule that starts up to 6 nested exec() runs from '
		'inside handlers (depth <= 3), some with a handler failure injected after k calls which the outer handler catches; (monitor) the real Py2Cpp and Reflections procedures transpile corpus modules '
		'with every handler behind a shadow-stack monitor. For every handler call at every nesting level the event must hold, per expandable property, exactly the results of the nodes that property yields '
		'(single vs list, order), exec must end with exactly the root result, nested runs must not disturb the outer frame, and a second run must equal a fresh procedure. distinct_nontrivial = distinct '
		'(module, nesting point, depth, failed?) tuples plus distinct monitored (module, variant state) pairs; states = node classes visited and nesting depths')
	quick_runs = 1800
	thorough_runs = 30000
	quick_budget_s = 90.0
	thorough_budget_s = 1500.0
	components_real = ['Procedure (exec, stacks, __make_event, __emit)', 'Node.procedural / prop_keys / expandable properties of every node class', 'Nodes.expand', 'Py2Cpp handlers and Reflections/ProceduralResolver handlers (monitor mode)', 'the pipeline that loads the corpus modules']
	components_stubbed = Engine.components_stubbed + ['handlers are re-registered behind a monitor through Procedure.clear_handler/on; exec is framed by a wrapper (monitor only observes)']
	assumptions = ['corpus = generated pools + library stubs; results are compared by object identity, nodes by (module, full path, classification)']

	def canonical_cases(self) -> list[dict[str, Any]]:
		cases: list[dict[str, Any]] = []
		pool = pools.fixed_pool(0)
		top = pools.core(pool)[0]
		for m in pool['modules'] + LIB_MODULES:
			cases.append({'mode': 'identity', 'pool': pool, 'module': m, 'schedule': []})
		cases.append({'mode': 'identity', 'pool': pool, 'module': top, 'schedule': [{'at': 5, 'root': 40, 'max_depth': 3}]})
		cases.append({'mode': 'identity', 'pool': pool, 'module': top, 'schedule': [{'at': 5, 'root': 40, 'max_depth': 3, 'raise_after': 2}]})
		cases.append({'mode': 'identity', 'pool': pool, 'module': top, 'schedule': [{'at': 3, 'root': 60, 'max_depth': 3}, {'at': 6, 'root': 30, 'max_depth': 3, 'raise_after': 0}, {'at': 9, 'root': 80, 'max_depth': 3}]})
		cases.append({'mode': 'identity', 'pool': pool, 'module': top, 'root': 50, 'schedule': [{'at': 1, 'root': 20, 'max_depth': 2, 'raise_after': 5}]})
		cases.append({'mode': 'identity', 'pool': pool, 'module': top, 'outer_raise_after': 30, 'schedule': []})
		cases.append({'mode': 'identity', 'pool': pool, 'module': top, 'outer_raise_after': 12, 'schedule': [{'at': 4, 'root': 70, 'max_depth': 3, 'raise_after': 9}, {'at': 8, 'root': 70, 'max_depth': 3}, {'at': 20, 'root': 33, 'max_depth': 3}]})
		for which in (0, 1, 3):
			p = pools.fixed_pool(which)
			cases.append({'mode': 'monitor', 'pool': p, 'targets': list(p['modules'])})
		ex = pools.example_pool()
		cases.append({'mode': 'identity', 'pool': ex, 'module': 'example.json', 'schedule': [{'at': 50, 'root': 4000, 'max_depth': 3}, {'at': 900, 'root': 777, 'max_depth': 3, 'raise_after': 40}, {'at': 2000, 'root': 123, 'max_depth': 2}], 'outer_raise_after': 500})
		cases.append({'mode': 'monitor', 'pool': ex, 'targets': ['example.json']})
		from tranpsim.c07 import base_texts
		base = base_texts(pool)
		same_shape = ['a = 1 + 2\nprint(a)', 'b = 3 * 4\nprint(b)', 'c = 5\nd = c\nprint(c, d)', 'b = 3 * 4\nprint(b)']
		cases.append({'mode': 'rebuild', 'pool': pool, 'texts': same_shape})
		cases.append({'mode': 'rebuild', 'pool': pool, 'texts': ['def calc(a: int) -> int:\n\treturn a', 'def calc(b: str) -> str:\n\treturn b', 'def calc(a: int) -> int:\n\treturn a']})
		cases.append({'mode': 'rebuild', 'pool': pool, 'texts': base[:4] + base[:2]})
		cases.append({'mode': 'rebuild', 'pool': pool, 'texts': [base[-1], base[-2], base[-1], base[1]]})
		from tranpsim.corpus import texts as corpus_texts
		cases.append({'mode': 'rebuild', 'pool': pool, 'texts': [corpus_texts.STANDALONE[9], corpus_texts.STANDALONE[0], corpus_texts.STANDALONE[8], corpus_texts.STANDALONE[9]]})
		cases.append({'mode': 'rebuild', 'pool': pool, 'texts': [base[1], 'def f(k: int) -> int:\n\ta = k\n\tb = a\n\treturn undefined_name + b', base[1], 'class A:\n\tn: int\ndef f() -> int:\n\ta = A()\n\tb = a\n\treturn b.missing', base[1], base[0]]})
		return cases

	def generate(self, rng: random.Random, index: int) -> dict[str, Any]:
		pool = pools.fixed_pool(rng.randrange(4)) if rng.random() < 0.4 else pools.gen_pool(rng, allow_invalid=False)
		state = {m: rng.randrange(len(pool['variants'][m])) for m in pool['modules']}
		for m in pool['modules']:
			if '-import' in pool['variants'][m][state[m]]['note']:
				state[m] = 0
		if rng.random() < 0.25:
			targets = rng.sample(pool['modules'], rng.randint(1, len(pool['modules'])))
			return {'mode': 'monitor', 'pool': pool, 'state': state, 'targets': targets}
		if rng.random() < 0.25:
			from tranpsim.c07 import base_texts
			from tranpsim.corpus import texts as corpus
			base = base_texts(pool) + ['a = 1 + 2\nprint(a)', 'b = 3 * 4\nprint(b)', 'x = [1, 2]\ny = x', 'x = [3]\ny = x'] + corpus.ILL_TYPED[:6]
			return {'mode': 'rebuild', 'pool': pool, 'state': state, 'texts': [rng.choice(base) for _ in range(rng.randint(2, 7))]}
		module = rng.choice(pool['modules']) if rng.random() < 0.8 else rng.choice(LIB_MODULES)
		sched = []
		ats = sorted(rng.sample(range(0, 400), rng.randint(1, 6)))
		p_fail = rng.choice([0, 0.3, 0.6])
		for at in ats:
			s: dict[str, Any] = {'at': at if rng.random() < 0.7 else at % 30, 'root': rng.randrange(10**6), 'max_depth': rng.randint(1, 3)}
			if rng.random() < p_fail:
				s['raise_after'] = rng.randint(0, 12)
			sched.append(s)
		case: dict[str, Any] = {'mode': 'identity', 'pool': pool, 'state': state, 'module': module, 'schedule': sched}
		if rng.random() < 0.3:
			case['root'] = rng.randrange(10**6)
		if rng.random() < 0.3:
			case['outer_raise_after'] = rng.randint(1, 60)
		return case

	def execute(self, case: dict[str, Any]) -> dict[str, Any]:
		return C09Runner(case).execute()

	def minimise(self, case: dict[str, Any], vclass: str) -> dict[str, Any]:
		if case['mode'] != 'identity' or not case.get('schedule'):
			return case

		def fails(sched: list[dict[str, Any]]) -> bool:
			res = C09Runner({**case, 'schedule': sched}).execute()
			return any(v['class'] == vclass for v in res['violations'])
		return {**case, 'schedule': ddmin(case['schedule'], fails, budget=20) if len(case['schedule']) > 1 else case['schedule']}

	def sample_of(self, case: dict[str, Any]) -> Any:
		return {k: v for k, v in case.items() if k != 'pool'} | {'modules': case['pool']['modules']}
