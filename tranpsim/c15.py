"""C15 — the stored form of a syntax tree restores an identical tree (persist-sim: store -> restart -> load)."""
import io
import random
from typing import Any

from tranpsim import observers, pools, tasks
from tranpsim.core import EPOCH_NS, Evidence, HarnessError, ddmin, digest
from tranpsim.framework import Engine
from tranpsim.history import HistoryRunner, module_of_cache_file
from tranpsim.persist import ColdOracle, Project, file_class
from tranpsim.proc import sim_process

SECTIONS = ('entries', 'paths', 'nodes', 'quotes')


class C15Runner(HistoryRunner):
	def __init__(self, case: dict[str, Any]) -> None:
		super().__init__(case, observe=observers.observe_trees())
		self.cold = ColdOracle(self.pool, self.config, enabled=False, observe=observers.observe_trees())

	def judge_run(self, ctx: dict[str, Any]) -> None:
		i, rec = ctx['i'], ctx['rec']
		if rec['status'] != 'ok':
			self.bump('probes', f"run {rec['status']} (not judged here)")
			return
		seen = (rec.get('result') or {}).get('observed') or {}
		restored = [ev[1] for ev in rec.get('trace', []) if ev[0] == 'open-r' and file_class(ev[1]) == 'tree']
		restored_mods = {module_of_cache_file(r)[0] for r in restored if module_of_cache_file(r)}
		if not restored_mods:
			self.bump('probes', 'no tree restored in this run')
		fresh = self.cold.get(self.proj.state, modules=self.order)
		if fresh['status'] != 'ok':
			self.bump('probes', 'fresh-parse process failed (invalid variant)')
			return
		want = fresh['observed'] or {}
		for m in sorted(want):
			if m not in seen:
				continue
			tag = 'restored' if m in restored_mods else 'parsed'
			self.bump('trees_compared', tag)
			if m in restored_mods:
				for k, n in (seen[m].get('stats') or {}).items():
					self.bump('round_tripped', k, n)
				self.distinct.add(f"{m}:{seen[m]['entries']}")
			bad = [s for s in SECTIONS if seen[m].get(s) != want[m].get(s)]
			if bad:
				detail = self.localise(m, bad)
				self.violation('restored-tree-differs' if m in restored_mods else 'tree-differs', i, {'module': m, 'sections': bad, **detail}, sig=f"{','.join(bad)}")
		if self.changed_since_obs or restored_mods:
			self.changed_since_obs = True

	def localise(self, module: str, sections: list[str]) -> dict[str, Any]:
		"""Re-observe both sides with the full view of one module and report the first differing row."""
		try:
			snap = self.proj.sc.snapshot()
			rec = self.proj.run(force=True, modules=self.order, observe=observers.observe_trees(full_for=module))
			self.proj.sc.restore(snap)
			a = ((rec.get('result') or {}).get('observed') or {}).get(module, {}).get('full')
			self.cold.memo.clear()
			b = (self.cold.get(self.proj.state, modules=self.order, observe=observers.observe_trees(full_for=module)).get('observed') or {}).get(module, {}).get('full')
			if not a or not b:
				return {}
			for s in sections:
				if s == 'entries':
					return {'first_diff': first_tree_diff(a['entries'], b['entries'], 'root')}
				for ra, rb in zip(a[s], b[s]):
					if ra != rb:
						return {'first_diff': {'section': s, 'restored': ra, 'fresh': rb}}
				if len(a[s]) != len(b[s]):
					return {'first_diff': {'section': s, 'restored_rows': len(a[s]), 'fresh_rows': len(b[s])}}
		except Exception as e:  # localisation is best effort; the verdict rests on the digests
			return {'localise_failed': f'{type(e).__name__}: {e}'}
		return {}


def first_tree_diff(a: Any, b: Any, path: str) -> dict[str, Any]:
	if a[:5] != b[:5]:
		return {'at': path, 'restored': a[:5], 'fresh': b[:5]}
	ca, cb = a[5] or [], b[5] or []
	if len(ca) != len(cb):
		return {'at': path, 'restored_children': len(ca), 'fresh_children': len(cb)}
	for n, (x, y) in enumerate(zip(ca, cb)):
		if x != y:
			return first_tree_diff(x, y, f'{path}.{x[0]}[{n}]')
	return {}


def truncation_offsets(data: bytes, budget: int) -> list[int]:
	n = len(data)
	offs = {0, 1, 2, n - 1, n - 2, n // 2}
	stride = max(1, n // max(1, budget // 2))
	offs.update(range(0, n, stride))
	# structural boundaries
	marks = []
	for token in (b'},', b'null', b']', b'"children"', b'"source_map"'):
		start = 0
		while True:
			j = data.find(token, start)
			if j < 0:
				break
			marks.append(j)
			start = j + 1
	step = max(1, len(marks) // max(1, budget // 8))
	for j in marks[::step]:
		for d in (-1, 0, 1, len(b'},')):
			if 0 <= j + d < n:
				offs.add(j + d)
	return sorted(o for o in offs if 0 <= o < n)


def load_truncated_task(rel: str, offsets: list[int], zeros: bool):
	def task(seams: Any) -> dict[str, Any]:
		from rogw.tranp.implements.syntax.lark.parser import EntryStored
		with open(rel, 'rb') as f:
			data = f.read()
		bad = []
		classes: dict[str, int] = {}
		for k in offsets:
			blob = data[:k] + (b'\0' * (len(data) - k) if zeros else b'')
			try:
				EntryStored.load(io.BytesIO(blob))
				bad.append(k)
			except Exception as e:
				classes[type(e).__name__] = classes.get(type(e).__name__, 0) + 1
		return {'bad': bad, 'classes': classes, 'n': len(offsets), 'size': len(data)}
	return task


# customised grammars (the grammar is a user setting, config.yml `grammar:`): rules marked `!` keep their filtered tokens, so the trees
# carry what the stock grammar never shows -- indenter tokens (value '' for a dedent to column 1, whitespace-only values), keywords and punctuation
GRAMMAR_VARIANTS = {
	'keep-block-tokens': [('\nblock: _NEWLINE _INDENT statement+ _DEDENT | simple_stmt', '\n!block: _NEWLINE _INDENT statement+ _DEDENT | simple_stmt')],
	'keep-keywords': [('\nfunction_def_raw: "def"', '\n!function_def_raw: "def"'), ('\nclass_def_raw: "class"', '\n!class_def_raw: "class"'), ('\nreturn_stmt: "return"', '\n!return_stmt: "return"')],
}


def grammar_view_task(modules: list[str], cache_enabled: bool):
	"""Parser-level views (the rest of the pipeline does not know the extra tokens) of every module under the configured grammar."""
	def task(seams: Any) -> dict[str, Any]:
		from rogw.tranp.syntax.ast.finder import ASTFinder
		from rogw.tranp.syntax.ast.parser import SyntaxParser
		app = tasks.make_app(modules, force=True, cache_enabled=cache_enabled)
		parser = app.resolve(SyntaxParser)
		out: dict[str, Any] = {}
		for m in modules:
			root = parser(m)
			paths = ASTFinder().full_pathfy(root)
			out[m] = {'entries': observers.entry_view(root), 'paths': [[p, e.name, e.value if not e.has_child else None, e.is_terminal, e.is_empty] for p, e in paths.items()]}
		return out
	return task


def first_view_diff(a: Any, b: Any, at: str = 'root') -> dict[str, Any] | None:
	if a[:5] != b[:5]:
		return {'at': at, 'restored': a[:5], 'fresh': b[:5]}
	ca, cb = a[5] or [], b[5] or []
	if len(ca) != len(cb):
		return {'at': at, 'restored_children': len(ca), 'fresh_children': len(cb)}
	for n, (x, y) in enumerate(zip(ca, cb)):
		d = first_view_diff(x, y, f'{at}.{x[0]}[{n}]')
		if d:
			return d
	return None


class C15(Engine):
	prop = 'C15'
	rule = ('case = one history (edit/touch/run/lose/clear; runs optionally refused / killed between the file operations that replace a stored tree) over a generated pool; after every run each loaded module tree (restored from the cache '
		'or parsed) is compared field by field (names, token values, child order, empty placeholders, spans) and through derived views (full paths, '
		'node classes, tokens, error quotations) with a fresh parse in a cache-less process. distinct_nontrivial = distinct (module, tree digest) '
		'pairs that were actually restored from a stored file. Plus an enumeration pass: every stored tree truncated at stride/boundary offsets must fail to load')
	quick_runs = 36
	thorough_runs = 900
	quick_budget_s = 90.0
	thorough_budget_s = 1500.0
	components_real = ['Serialization.dumps/loads', 'EntryStored.save/load', 'EntryOfLark', 'CachedProxy', 'SyntaxParserOfLark', 'ASTFinder', 'Nodes/NodeResolver', 'ErrorRender.Quotation', 'Runner pipeline around them']
	components_stubbed = Engine.components_stubbed + ['builtins.open / os.unlink interposed (trace only in this check)']
	assumptions = ['the corpus (generated pools + the library stubs every run loads) bounds the tree shapes seen; this is not a search over programs', 'fresh parse = the same pipeline with caching disabled in a separate process']

	def canonical_cases(self) -> list[dict[str, Any]]:
		cases = []
		for which in (0, 1):
			pool = pools.fixed_pool(which)
			leaf = pools.core(pool)[-1]
			run = {'op': 'run'}
			cases.append({'pool': pool, 'ops': [run, run], 'kind': 'canonical'})
			cases.append({'pool': pool, 'ops': [run, {'op': 'edit', 'm': leaf, 'v': 1, 'dt': 10**9}, run, run], 'kind': 'canonical'})
			cases.append({'pool': pool, 'ops': [run, {'op': 'touch', 'm': leaf, 'dt': 10**9}, run, {'op': 'lose', 'pick': 0.3, 'cls': 'symbols'}, run], 'kind': 'canonical'})
			# a run that dies / is refused between the file operations that replace a stored tree, then fault-free runs: what they restore must be the current tree
			F = lambda **kw: {'op': 'run', 'fault': kw}
			cases.append({'pool': pool, 'ops': [run, {'op': 'edit', 'm': leaf, 'v': 1, 'dt': 10**9}, F(kind='eacces@open', pick=0.5, prefer='tree'), run, run], 'kind': 'canonical'})
			cases.append({'pool': pool, 'ops': [run, {'op': 'edit', 'm': leaf, 'v': 2, 'dt': 10**9}, F(kind='crash@after-unlink', pick=0.0, prefer=None), run, {'op': 'edit', 'm': leaf, 'v': 0, 'dt': 10**9}, F(kind='eacces@unlink', pick=0.0, prefer=None), run, run], 'kind': 'canonical'})
		for variant in sorted(GRAMMAR_VARIANTS):
			cases.append({'pool': pools.fixed_pool(1), 'ops': [], 'kind': 'grammar', 'variant': variant})
		ex = pools.example_pool()
		run = {'op': 'run'}
		cases.append({'pool': ex, 'ops': [run, run, {'op': 'touch', 'm': 'example.json', 'dt': 10**9}, run, {'op': 'edit', 'm': 'example.FW.string', 'v': 1, 'dt': 10**9}, run, run], 'kind': 'canonical'})
		return cases

	def generate(self, rng: random.Random, index: int) -> dict[str, Any]:
		pool = pools.gen_pool(rng, allow_invalid=False)
		mods = pool['modules']
		ops: list[dict[str, Any]] = [{'op': 'run'}]
		faulty = rng.random() < 0.4
		for _ in range(rng.randint(2, 6)):
			r = rng.random()
			if r < 0.45:
				m = rng.choice(mods)
				ops.append({'op': 'edit', 'm': m, 'v': rng.randrange(len(pool['variants'][m])), 'dt': rng.choice([1000, 10**9, 3600 * 10**9])})
			elif r < 0.55:
				ops.append({'op': 'touch', 'm': rng.choice(mods), 'dt': 10**9})
			elif r < 0.65:
				ops.append({'op': 'lose', 'pick': round(rng.random(), 4), 'cls': rng.choice(['symbols', 'tree', None])})
			elif faulty and r < 0.8:
				ops.append({'op': 'run', 'fault': {'kind': rng.choice(['eacces@open', 'eacces@unlink', 'crash@after-unlink', 'crash@open', 'crash@between-files']), 'pick': round(rng.random(), 4), 'prefer': rng.choice([None, 'tree', 'tree', 'after-unlink'])}})
			else:
				ops.append({'op': 'run'})
		ops.append({'op': 'run'})
		ops.append({'op': 'run'})
		return {'pool': pool, 'ops': ops, 'kind': 'seeded'}

	def execute(self, case: dict[str, Any]) -> dict[str, Any]:
		if case.get('kind') == 'truncation':
			return self.execute_truncation(case)
		if case.get('kind') == 'grammar':
			return self.execute_grammar(case)
		return C15Runner(case).execute()

	def execute_grammar(self, case: dict[str, Any]) -> dict[str, Any]:
		"""store (process 1) -> restore (process 2) -> parse without cache (process 3), under a customised grammar; restored must equal fresh."""
		from tranpsim.persist import DEFAULT_CONFIG
		proj = Project(case['pool'], {**DEFAULT_CONFIG, 'grammar': 'data/grammar_variant.lark'}, tag='c15g')
		vs: list[dict[str, Any]] = []
		counters: dict[str, dict[str, int]] = {'probes': {}, 'faults_fired': {}}
		try:
			text = (proj.sc.read('data/grammar.lark') or b'').decode('utf-8')
			for old, new in GRAMMAR_VARIANTS[case['variant']]:
				if text.count(old) != 1:
					raise HarnessError(f'grammar rule not found for variant {case["variant"]}: {old!r}')
				text = text.replace(old, new)
			proj.sc.write('data/grammar_variant.lark', text.encode('utf-8'), EPOCH_NS - 10**12)
			mods = [m for m in case['pool']['modules']]
			recs = [sim_process(proj.sc.root, grammar_view_task(mods, enabled), timeout=300) for enabled in (True, True, False)]
			if any(r['status'] != 'ok' for r in recs):
				bad = next(r for r in recs if r['status'] != 'ok')
				raise HarnessError(f'grammar variant run failed: {bad.get("error") or bad["status"]}')
			restored_files = [ev[1] for ev in recs[1].get('trace', []) if ev[0] == 'open-r' and file_class(ev[1]) == 'tree']
			counters['probes']['trees restored under a customised grammar'] = len(restored_files)
			if not restored_files:
				raise HarnessError('second process did not restore any tree')
			fresh = recs[2]['result']
			n_empty = 0
			for label, rec in (('stored-run', recs[0]), ('restored', recs[1])):
				for m in mods:
					got, want = rec['result'][m], fresh[m]
					n_empty += sum(1 for row in want['paths'] if row[3] and row[2] == '')
					if got != want:
						d = first_view_diff(got['entries'], want['entries']) or {'paths_differ': True}
						vs.append({'class': 'restored-tree-differs', 'detail': {'module': m, 'grammar': case['variant'], 'process': label, 'first_diff': d}, 'known': None, 'sig': 'grammar-variant'})
						break
			counters['probes']['tokens with an empty value in the compared trees'] = n_empty // 2
			return {'violations': vs, 'counters': counters, 'distinct': [f"grammar:{case['variant']}"], 'states': [], 'log': digest([case['variant'], [digest(fresh[m]) for m in mods]]), 'processes': 3, 'sim_time_s': 0.0}
		finally:
			proj.destroy()

	def execute_truncation(self, case: dict[str, Any]) -> dict[str, Any]:
		proj = Project(case['pool'], tag='c15trunc')
		try:
			rec = proj.run(force=True)
			files = [f for f in proj.cache_files() if file_class(f) == 'tree' and f.split('/')[-1].split('-')[0] == case['module_file'] and f.rsplit('/', 1)[0].endswith(case.get('module_dir', ''))]
			vs = []
			for rel in files[:1]:
				r = sim_process(proj.sc.root, load_truncated_task(rel, [case['offset']], case['zeros']), timeout=120)
				if r['status'] == 'ok' and r['result']['bad']:
					vs.append({'class': 'truncated-tree-loads', 'detail': {'file': rel, 'offset': case['offset'], 'size': r['result']['size'], 'zeros': case['zeros']}, 'known': None, 'sig': 'truncation'})
			return {'violations': vs, 'counters': {}, 'distinct': [], 'states': [], 'log': '', 'processes': 2, 'sim_time_s': 0.0}
		finally:
			proj.destroy()

	def minimise(self, case: dict[str, Any], vclass: str) -> dict[str, Any]:
		def fails(ops: list[dict[str, Any]]) -> bool:
			if not any(o['op'] == 'run' for o in ops):
				return False
			res = C15Runner({**case, 'ops': ops}).execute()
			return any(v['class'] == vclass for v in res['violations'])
		return {**case, 'ops': ddmin(case['ops'], fails, budget=25)}

	def extra_passes(self, ev: Evidence, tier: str, seed: int) -> list[dict[str, Any]]:
		"""Interrupted-write clause: every stored tree, truncated (or zero-filled) at many offsets, must fail to load."""
		budget = 400 if tier == 'quick' else 6000
		pool = pools.fixed_pool(0)
		proj = Project(pool, tag='c15enum')
		out: list[dict[str, Any]] = []
		try:
			rec = proj.run(force=True)
			if rec['status'] != 'ok':
				raise HarnessError('enumeration corpus run failed')
			files = [f for f in proj.cache_files() if file_class(f) == 'tree']
			total = 0
			classes: dict[str, int] = {}
			for rel in files:
				data = proj.sc.read(rel) or b''
				offs = truncation_offsets(data, budget)
				for zeros in (False, True):
					sub = offs if not zeros else offs[::7]
					r = sim_process(proj.sc.root, load_truncated_task(rel, sub, zeros), timeout=600)
					if r['status'] != 'ok':
						raise HarnessError(f'truncation pass failed: {r}')
					res = r['result']
					total += res['n']
					for k, n in res['classes'].items():
						classes[k] = classes.get(k, 0) + n
					for k in res['bad']:
						out.append({'label': 'enum', 'case': {'kind': 'truncation', 'file_class': 'tree', 'module_file': rel.split('/')[-1].split('-')[0], 'module_dir': rel.rsplit('/', 1)[0].split('.cache/tranp')[-1].strip('/'), 'offset': k, 'zeros': zeros, 'pool': pool, 'ops': []},
							'violation': {'class': 'truncated-tree-loads', 'detail': {'file': rel, 'offset': k, 'size': res['size'], 'zeros': zeros}, 'sig': 'truncation'}})
			ev.coverage['truncation_pass'] = {'files': len(files), 'loads': total, 'raised': classes, 'loaded_anyway': len(out)}
			ev.bump('faults_fired', 'torn-write(truncated tree file)', total)
		finally:
			proj.destroy()
		return out[:3]

	def sample_of(self, case: dict[str, Any]) -> Any:
		return {'shape': case['pool']['shape'], 'modules': case['pool']['modules'], 'ops': case['ops']}
