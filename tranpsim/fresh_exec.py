"""Exec-fresh interpreter: transpile every module of a scratch project in THIS interpreter (its PYTHONHASHSEED is whatever the caller set).

usage: python -m tranpsim.fresh_exec '{"root": ..., "modules": [...]}'  -> last stdout line is JSON {module: text}
"""
import io
import json
import os
import sys


def main() -> int:
	spec = json.loads(sys.argv[1])
	from tranpsim import boot
	boot.import_pipeline()
	from tranpsim import tasks
	from rogw.tranp.module.modules import Modules
	from rogw.tranp.transpiler.types import ITranspiler
	os.chdir(spec['root'])
	real = sys.stdout
	sys.stdout = io.StringIO()
	out = {}
	try:
		for m in spec['modules']:
			# one App per module: each answer is that of a process that did nothing else
			app = tasks.make_app(spec['modules'], force=True, cache_enabled=spec.get('cache_enabled'))
			try:
				out[m] = app.resolve(ITranspiler).transpile(app.resolve(Modules).load(m).entrypoint)
			except Exception as e:
				out[m] = f'!{type(e).__module__}.{type(e).__qualname__}'
	finally:
		sys.stdout = real
	print(json.dumps(out))
	return 0


if __name__ == '__main__':
	sys.exit(main())
