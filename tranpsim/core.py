"""Shared simulator plumbing: seeds, scratch projects (simulated storage + clock), snapshots,
replay files, ddmin, evidence writer, worker pool."""
import hashlib
import json
import os
import random
import re
import shutil
import sys
import tempfile
import time
from collections.abc import Callable, Iterable
from concurrent.futures import ProcessPoolExecutor, as_completed
from typing import Any

from tranpsim import boot

ENGINE_VERSION = 1
VERIF_DIR = boot.VERIF_DIR
REPO = boot.REPO


# ---------------------------------------------------------------------------------------------
# seeds


def master_seed() -> int:
	try:
		return int(os.environ.get('VERIF_SEED', '0'))
	except ValueError:
		return 0


def derive_seed(master: int, prop: str, index: int | str) -> int:
	"""seed(P, i) = first 8 hex digits of sha256('master:P:i')."""
	return int(hashlib.sha256(f'{master}:{prop}:{index}'.encode()).hexdigest()[:8], 16)


def rng_for(master: int, prop: str, index: int | str) -> random.Random:
	return random.Random(derive_seed(master, prop, index))


def digest(obj: Any) -> str:
	"""Canonical digest of a JSON-able object."""
	return hashlib.sha256(json.dumps(obj, sort_keys=True, separators=(',', ':'), default=str).encode()).hexdigest()[:16]


_HEX32 = re.compile(r'[0-9a-f]{32}')


def canon_hex(text: str, table: dict[str, str]) -> str:
	"""Replace 32-hex identifiers (cache identities derived from real mtimes of repo files) by first-appearance indices."""
	def sub(m: re.Match) -> str:
		key = m.group(0)
		if key not in table:
			table[key] = f'#{len(table)}'
		return table[key]
	return _HEX32.sub(sub, text)


# ---------------------------------------------------------------------------------------------
# scratch project: simulated storage and clock


def sweep_stale_scratch(max_age_s: float = 8 * 3600) -> int:
	"""Remove scratch projects left behind by killed runs (older than any run can be)."""
	base = scratch_base()
	n = 0
	now = time.time()
	try:
		names = os.listdir(base)
	except OSError:
		return 0
	for name in names:
		if name.startswith('tranpsim-') or name.startswith('tranpmut-'):
			full = os.path.join(base, name)
			try:
				if now - os.stat(full).st_mtime > max_age_s:
					shutil.rmtree(full, ignore_errors=True)
					n += 1
			except OSError:
				pass
	return n


def scratch_base() -> str:
	for cand in ('/dev/shm', tempfile.gettempdir()):
		if os.path.isdir(cand) and os.access(cand, os.W_OK):
			return cand
	return tempfile.gettempdir()


EPOCH_NS = 1_700_000_000 * 10**9

DEFAULT_CONFIG = {
	'grammar': 'data/grammar.lark',
	'template_dirs': ['tpl', 'data/cpp/template'],
	'trans_mapping': 'data/i18n.yml',
	'input_globs': ['src/**/*.py'],
	'output_dirs': ['./out'],
	'output_language': 'cpp:h',
	'exclude_patterns': [],
	'env': {
		'transpiler': {'include_dirs': ['src/']},
		'view': {'immutable_param_types': ['std::string']},
	},
}


class Clock:
	"""Simulated wall clock (ns). Every mtime tranp can see is assigned from it."""

	def __init__(self, start_ns: int = EPOCH_NS) -> None:
		self.now = start_ns
		self.min = start_ns
		self.max = start_ns
		self.elapsed = 0

	def advance(self, delta_ns: int) -> int:
		self.now += delta_ns
		self.elapsed += abs(delta_ns)
		self.min = min(self.min, self.now)
		self.max = max(self.max, self.now)
		return self.now


Snapshot = dict[str, tuple[bytes, int]]


class Scratch:
	"""One scratch project directory (a simulated machine's disk)."""

	def __init__(self, tag: str = 'sim') -> None:
		self.root = tempfile.mkdtemp(prefix=f'tranpsim-{tag}-', dir=scratch_base())
		self.clock = Clock()
		# per file: set of (mtime_ns) -> content digest; the fault model's premise is that two different contents of one file never share an mtime
		self.mtime_history: dict[str, dict[float, str]] = {}
		self._setup_data()

	def _setup_data(self) -> None:
		data = os.path.join(self.root, 'data')
		os.makedirs(data)
		src_data = os.path.join(REPO, 'data')
		for name in sorted(os.listdir(src_data)):
			src = os.path.join(src_data, name)
			if name == 'grammar.lark':
				with open(src, 'rb') as f:
					self.write('data/grammar.lark', f.read(), EPOCH_NS - 10**12)
			else:
				os.symlink(src, os.path.join(data, name))
		# project-level template directory placed before data/cpp/template (documented usage of emit_depends, py2cpp.py):
		# without it Py2Cpp's per-transpile dependency stack is unobservable because no shipped template emits a dependency
		for name, include in (('string', '<string>'), ('float', '<cfloat>')):
			with open(os.path.join(src_data, 'cpp', 'template', 'literal', f'{name}.j2'), 'rb') as f:
				original = f.read()
			self.write(f'tpl/literal/{name}.j2', ("{{- emit_depends('" + include + "') -}}").encode() + original, EPOCH_NS - 10**12)

	def path(self, rel: str) -> str:
		return os.path.join(self.root, rel)

	def write(self, rel: str, content: bytes, mtime_ns: int | None = None) -> None:
		full = self.path(rel)
		os.makedirs(os.path.dirname(full), exist_ok=True)
		with open(full, 'wb') as f:
			f.write(content)
		if mtime_ns is not None:
			os.utime(full, ns=(mtime_ns, mtime_ns))

	def write_config(self, config: dict[str, Any]) -> None:
		# JSON is a YAML subset; yaml.safe_load reads it
		self.write('config.yml', json.dumps(config, indent=1).encode(), EPOCH_NS - 10**12)

	def edit(self, rel: str, content: bytes, delta_ns: int) -> int:
		"""Edit a source: advance the clock by delta (may be negative = skew) and stamp the file.

		Enforces the premise of mtime-keyed caches ("content and mtime change"): a different content never re-uses an mtime
		of the same file, where mtime is what os.path.getmtime reports (a float: sub-microsecond steps are invisible to it).
		"""
		hist = self.mtime_history.setdefault(rel, {})
		cd = hashlib.md5(content).hexdigest()
		t = self.clock.advance(delta_ns)
		step = 1000 if delta_ns >= 0 else -1000
		while True:
			self.write(rel, content, t)
			seen = os.path.getmtime(self.path(rel))
			if seen not in hist or hist[seen] == cd:
				hist[seen] = cd
				return t
			t = self.clock.advance(step)

	def edit_at(self, rel: str, content: bytes, mtime_ns: int) -> int:
		"""Write a content with an explicitly chosen (older) mtime: a restore that preserves timestamps (cp -p, rsync -t, touch -r).
		The caller is responsible for the premise (see HistoryRunner: only mtimes whose cached state has been superseded by a later run)."""
		self.write(rel, content, mtime_ns)
		self.mtime_history.setdefault(rel, {})[os.path.getmtime(self.path(rel))] = hashlib.md5(content).hexdigest()
		return mtime_ns

	def read(self, rel: str) -> bytes | None:
		try:
			with open(self.path(rel), 'rb') as f:
				return f.read()
		except FileNotFoundError:
			return None

	def remove(self, rel: str) -> bool:
		try:
			os.unlink(self.path(rel))
			return True
		except FileNotFoundError:
			return False

	def files(self, under: str = '') -> list[str]:
		"""Relative paths of regular files (symlinked data is skipped)."""
		out: list[str] = []
		base = self.path(under) if under else self.root
		if not os.path.isdir(base):
			return out
		for dirpath, dirnames, filenames in os.walk(base, followlinks=False):
			dirnames.sort()
			for name in sorted(filenames):
				full = os.path.join(dirpath, name)
				if os.path.islink(full):
					continue
				out.append(os.path.relpath(full, self.root))
		return out

	def snapshot(self) -> Snapshot:
		snap: Snapshot = {}
		for rel in self.files():
			full = self.path(rel)
			with open(full, 'rb') as f:
				snap[rel] = (f.read(), os.stat(full).st_mtime_ns)
		return snap

	def restore(self, snap: Snapshot) -> None:
		current = set(self.files())
		for rel in current - set(snap):
			os.unlink(self.path(rel))
		for rel, (content, mtime_ns) in snap.items():
			full = self.path(rel)
			if rel in current:
				st = os.stat(full)
				if st.st_mtime_ns == mtime_ns and st.st_size == len(content):
					with open(full, 'rb') as f:
						if f.read() == content:
							continue
			self.write(rel, content, mtime_ns)
		# drop empty directories left behind under cache/out (makedirs events must replay identically)
		for top in ('.cache', 'out'):
			base = self.path(top)
			if not os.path.isdir(base):
				continue
			for dirpath, dirnames, filenames in os.walk(base, topdown=False):
				if not os.listdir(dirpath):
					os.rmdir(dirpath)

	def clear(self, under: str) -> None:
		shutil.rmtree(self.path(under), ignore_errors=True)

	def destroy(self) -> None:
		shutil.rmtree(self.root, ignore_errors=True)

	def __enter__(self) -> 'Scratch':
		return self

	def __exit__(self, *exc: Any) -> None:
		self.destroy()


# ---------------------------------------------------------------------------------------------
# replay files


def replay_dir() -> str:
	path = os.path.join(VERIF_DIR, 'replays')
	os.makedirs(path, exist_ok=True)
	return path


def write_replay(prop: str, seed: int, index: int | str, body: dict[str, Any]) -> str:
	path = os.path.join(replay_dir(), f'{prop}-{seed}-{index}.json')
	doc = {'engine_version': ENGINE_VERSION, 'property': prop, 'master_seed': seed, 'run_index': index, 'hashseed': boot.HASHSEED, **body}
	with open(path, 'w') as f:
		json.dump(doc, f, indent=1, sort_keys=True, default=str)
	return path


def load_replay(path: str) -> dict[str, Any]:
	with open(path) as f:
		return json.load(f)


# ---------------------------------------------------------------------------------------------
# ddmin over a list


def ddmin(items: list[Any], fails: Callable[[list[Any]], bool], budget: int = 120) -> list[Any]:
	"""Classic delta debugging; `fails(candidate)` must return True when the same violation class persists."""
	used = 0
	n = 2
	cur = list(items)
	while len(cur) >= 2 and used < budget:
		chunk = max(1, len(cur) // n)
		subsets = [cur[i:i + chunk] for i in range(0, len(cur), chunk)]
		reduced = False
		for i in range(len(subsets)):
			cand = [x for j, s in enumerate(subsets) if j != i for x in s]
			if not cand:
				continue
			used += 1
			if fails(cand):
				cur = cand
				n = max(n - 1, 2)
				reduced = True
				break
			if used >= budget:
				break
		if not reduced:
			if n >= len(cur):
				break
			n = min(len(cur), n * 2)
	if len(cur) == 1 and used < budget:
		pass
	return cur


# ---------------------------------------------------------------------------------------------
# known findings


def load_known_findings() -> list[dict[str, Any]]:
	path = os.path.join(VERIF_DIR, 'known_findings.json')
	if not os.path.exists(path):
		return []
	with open(path) as f:
		doc = json.load(f)
	return doc.get('findings', [])


def known_for(prop: str) -> list[dict[str, Any]]:
	return [k for k in load_known_findings() if k.get('property') == prop and k.get('status') == 'known']


# ---------------------------------------------------------------------------------------------
# evidence


class Evidence:
	"""Accumulates coverage counters and writes /verif/evidence/<ID>.json."""

	def __init__(self, prop: str, tier: str, seed: int, level: str = 'exploration') -> None:
		self.prop = prop
		self.tier = tier
		self.seed = seed
		self.level = level
		self.t0 = time.time()
		self.coverage: dict[str, Any] = {
			'evaluations': 0, 'distinct_nontrivial': 0, 'rule': '', 'samples': [],
			'runs': 0, 'simulated_processes': 0, 'faults_fired': {}, 'probes': {},
			'components': {'real': [], 'stubbed': []},
		}
		self.assumptions: list[str] = []
		self.violations = 0
		self._distinct: set[str] = set()
		self._states: set[str] = set()

	def bump(self, table: str, key: str, n: int = 1) -> None:
		tbl = self.coverage.setdefault(table, {})
		tbl[key] = tbl.get(key, 0) + n

	def merge_counts(self, table: str, counts: dict[str, int]) -> None:
		for key, n in sorted(counts.items()):
			self.bump(table, key, n)

	def add_distinct(self, key: str) -> None:
		self._distinct.add(key)

	def add_state(self, key: str) -> None:
		self._states.add(key)

	def write(self, extra: dict[str, Any] | None = None) -> str:
		wall = time.time() - self.t0
		cov = self.coverage
		cov['distinct_nontrivial'] = len(self._distinct)
		cov['distinct_states'] = len(self._states)
		if cov.get('runs'):
			cov['runs_per_hour'] = int(cov['runs'] * 3600 / max(wall, 1e-6))
		if extra:
			cov.update(extra)
		doc = {
			'property_id': self.prop, 'tier': self.tier, 'seed': self.seed, 'level': self.level,
			'coverage': cov, 'assumptions': self.assumptions, 'wall_s': round(wall, 3), 'violations': self.violations,
		}
		path = os.path.join(VERIF_DIR, 'evidence', f'{self.prop}.json')
		os.makedirs(os.path.dirname(path), exist_ok=True)
		tmp = path + '.tmp'
		with open(tmp, 'w') as f:
			json.dump(doc, f, indent=1, sort_keys=True, default=str)
		os.replace(tmp, path)
		return path


# ---------------------------------------------------------------------------------------------
# worker pool


def n_workers() -> int:
	try:
		return max(1, int(os.environ.get('TRANPSIM_WORKERS', '0')) or min(16, os.cpu_count() or 1))
	except ValueError:
		return 1


class HarnessError(Exception):
	"""Something in the harness (not in tranp) went wrong; exit 2, never a verdict."""


def run_indexed(fn: Callable[[int], Any], indices: Iterable[int], workers: int | None = None, deadline: float | None = None, on_result: Callable[[int, Any], None] | None = None) -> list[tuple[int, Any]]:
	"""Run fn(i) for every index on a fork pool. Results are delivered in index order (to `on_result` when given, else as a list),
	so verdicts and evidence never depend on the worker count.

	`deadline` (time.time() value): indices not started before the deadline are skipped (budget control, recorded by the caller).
	"""
	import multiprocessing
	idx = list(indices)
	workers = workers or n_workers()
	collected: list[tuple[int, Any]] = []

	def deliver(i: int, res: Any) -> None:
		if on_result is not None:
			on_result(i, res)
		else:
			collected.append((i, res))

	if workers == 1:
		for i in idx:
			if deadline and time.time() > deadline:
				break
			deliver(i, fn(i))
		return collected
	ctx = multiprocessing.get_context('fork')
	order = {i: n for n, i in enumerate(idx)}
	buffer: dict[int, Any] = {}
	next_pos = 0
	with ProcessPoolExecutor(max_workers=workers, mp_context=ctx) as pool:
		futs: dict[Any, int] = {}
		it = iter(idx)
		pending: set[Any] = set()

		def submit_next() -> bool:
			# (the deadline is enforced inside the worker function, which skips seeded cases once it has passed; canonical cases always run)
			try:
				i = next(it)
			except StopIteration:
				return False
			fut = pool.submit(fn, i)
			futs[fut] = i
			pending.add(fut)
			return True

		for _ in range(workers + 4):
			if not submit_next():
				break
		from concurrent.futures import FIRST_COMPLETED, wait
		while pending:
			done, _ = wait(pending, return_when=FIRST_COMPLETED)
			for fut in done:
				pending.discard(fut)
				i = futs.pop(fut)
				try:
					buffer[order[i]] = (i, fut.result())
				except Exception as e:  # worker-side harness failure
					raise HarnessError(f'worker failed on index {i}: {type(e).__name__}: {e}') from e
				submit_next()
			while next_pos in buffer:
				i, res = buffer.pop(next_pos)
				deliver(i, res)
				next_pos += 1
		# indices skipped by the deadline leave no gap: they are a suffix of the submission order
		for pos in sorted(buffer):
			i, res = buffer[pos]
			deliver(i, res)
	return collected


def log(*args: Any) -> None:
	print(*args, file=sys.stderr, flush=True)
