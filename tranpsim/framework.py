"""Check driver shared by all engines: canonical + seeded cases on a fork pool, known-finding classification,
minimisation, replay files, evidence, exit codes (0 held / 1 violation / 2 harness error)."""
import argparse
import json
import os
import subprocess
import sys
import time
import traceback
from typing import Any

from tranpsim import boot, core
from tranpsim.core import Evidence, HarnessError, derive_seed, log, master_seed, rng_for


class Engine:
	"""Interface implemented per property."""

	prop = ''
	level = 'exploration'
	rule = ''
	quick_runs = 50
	thorough_runs = 1000
	quick_budget_s = 100.0
	thorough_budget_s = 1500.0
	components_real: list[str] = []
	components_stubbed: list[str] = ['typing.TypeIs shim (typing_extensions) so that the 3.13 code base imports under the pinned 3.12 interpreter']
	assumptions: list[str] = []
	needs_pipeline = True

	def prepare(self, ev: Evidence, tier: str) -> None:
		"""Start-up validation; raise HarnessError when the harness premise does not hold."""

	def canonical_cases(self) -> list[dict[str, Any]]:
		return []

	def generate(self, rng: Any, index: int) -> dict[str, Any]:
		raise NotImplementedError

	def execute(self, case: dict[str, Any]) -> dict[str, Any]:
		"""-> {'violations': [{'class','detail','known': id|None, ...}], 'counters': {table: {key: n}}, 'distinct': [keys], 'states': [keys], 'log': digest, 'processes': n, 'sim_time_s': float}"""
		raise NotImplementedError

	def minimise(self, case: dict[str, Any], vclass: str) -> dict[str, Any]:
		return case

	def extra_passes(self, ev: Evidence, tier: str, seed: int) -> list[dict[str, Any]]:
		"""Optional enumeration passes; returns violation records [{'case','violation'}]."""
		return []

	def sample_of(self, case: dict[str, Any]) -> Any:
		return case.get('ops', case)


_CTX: tuple[Any, int, list[dict[str, Any]]] | None = None


_DEADLINE: float | None = None


def _work_i(i: int) -> dict[str, Any]:
	assert _CTX is not None
	# seeded cases queued behind the deadline are skipped (canonical cases always run)
	if _DEADLINE is not None and i >= len(_CTX[2]) and time.time() > _DEADLINE:
		return {'skipped': True}
	return _work((_CTX[0], _CTX[1], _CTX[2], i))


def _work(args: tuple[Engine, int, list[dict[str, Any]], int]) -> dict[str, Any]:
	eng, seed, canon, i = args
	if i < len(canon):
		case = canon[i]
		label = f'c{i}'
	else:
		j = i - len(canon)
		case = eng.generate(rng_for(seed, eng.prop, j), j)
		label = str(j)
	t0 = time.time()
	try:
		res = eng.execute(case)
	except HarnessError:
		raise
	except Exception as e:
		raise HarnessError(f'{eng.prop} case {label}: {type(e).__name__}: {e}\n{traceback.format_exc()}') from e
	res['label'] = label
	res['wall'] = time.time() - t0
	res['case'] = case if (res.get('violations') or i < len(canon) + 3 or i < 3) else None
	return res


def violation_sig(v: dict[str, Any]) -> str:
	return f"{v.get('class')}|{v.get('sig', '')}"


def run(eng: Engine, argv: list[str] | None = None) -> int:
	ap = argparse.ArgumentParser()
	ap.add_argument('--tier', default=os.environ.get('VERIF_TIER', 'quick'))
	ap.add_argument('--replay')
	ap.add_argument('--runs', type=int)
	ap.add_argument('--budget', type=float)
	ap.add_argument('--digests', action='store_true', help='print per-case log digests and exit (determinism self-test)')
	ap.add_argument('--indices', default='')
	ap.add_argument('--no-evidence', action='store_true')
	ap.add_argument('--no-determinism', action='store_true')
	opts = ap.parse_args(argv)
	tier = opts.tier if opts.tier in ('quick', 'thorough') else 'quick'
	seed = master_seed()
	try:
		boot.boot()
		if eng.needs_pipeline:
			boot.import_pipeline()
		if opts.replay:
			return _replay(eng, opts.replay)
		if opts.digests:
			return _digests(eng, seed, opts.indices)
		return _main(eng, tier, seed, opts)
	except HarnessError as e:
		log(f'HARNESS-ERROR property={eng.prop}: {e}')
		return 2
	except Exception:
		log(f'HARNESS-ERROR property={eng.prop}: unexpected')
		traceback.print_exc()
		return 2


def _digests(eng: Engine, seed: int, indices: str) -> int:
	"""Print the event-log digests of the seeded cases with the given indices (determinism self-test; no canonical cases, no prepare())."""
	idx = [int(x) for x in indices.split(',') if x != '']
	out = {}
	for j in idx:
		res = _work((eng, seed, [], j))
		out[res['label']] = res.get('log')
	print('DIGESTS ' + json.dumps(out, sort_keys=True))
	return 0


def determinism_spot_check(eng: Engine, seed: int, logs: dict[str, Any]) -> dict[str, Any]:
	"""Re-run a few seeded cases of this very run in a fresh interpreter under another PYTHONHASHSEED and compare the event-log digests.
	A divergence is a harness error (the simulator forgot a source of nondeterminism), never a verdict about tranp."""
	labels = sorted(logs, key=int)[:3]
	if not labels:
		return {'cases': 0}
	env = dict(os.environ, TRANPSIM_HASHSEED='1', VERIF_SEED=str(seed))
	env.pop('PYTHONHASHSEED', None)
	p = subprocess.run([sys.executable, '-m', 'tranpsim.check', eng.prop, '--digests', '--indices', ','.join(labels)], cwd=core.VERIF_DIR, env=env, capture_output=True, text=True, timeout=900)
	other = None
	for ln in p.stdout.splitlines():
		if ln.startswith('DIGESTS '):
			other = json.loads(ln[8:])
	if other is None:
		raise HarnessError(f'determinism spot check produced no digests: {p.stderr[-400:]}')
	bad = [lb for lb in labels if other.get(lb) != logs[lb]]
	if bad:
		raise HarnessError(f'determinism spot check diverged for seeded cases {bad}: {[(logs[b], other.get(b)) for b in bad]}')
	return {'cases': len(labels), 'labels': labels, 'second_interpreter_hashseed': '1', 'identical': True}


def _replay(eng: Engine, path: str) -> int:
	doc = core.load_replay(path)
	res = eng.execute(doc['case'])
	want = doc.get('violation', {})
	got = [v for v in res.get('violations', []) if not v.get('known')]
	same = [v for v in got if v.get('class') == want.get('class')]
	if same:
		v = same[0]
		exact = all(v.get(k) == want.get(k) for k in ('class', 'sig', 'expected', 'observed'))
		print(f"replayed: class={v.get('class')} exact_match={exact} detail={json.dumps(v.get('detail'), default=str)[:600]}")
		print(f'VIOLATION property={eng.prop} replay={path}')
		return 1
	print(f"replay did not reproduce (expected class {want.get('class')}; got {[v.get('class') for v in got]})")
	return 0


def _main(eng: Engine, tier: str, seed: int, opts: Any) -> int:
	core.sweep_stale_scratch()
	ev = Evidence(eng.prop, tier, seed, eng.level)
	ev.coverage['rule'] = eng.rule
	ev.coverage['components'] = {'real': eng.components_real, 'stubbed': eng.components_stubbed}
	ev.assumptions = list(eng.assumptions)
	eng.prepare(ev, tier)
	canon = eng.canonical_cases()
	n_seeded = opts.runs if opts.runs is not None else (eng.quick_runs if tier == 'quick' else eng.thorough_runs)
	budget = opts.budget if opts.budget is not None else (eng.quick_budget_s if tier == 'quick' else eng.thorough_budget_s)
	total = len(canon) + n_seeded
	deadline = ev.t0 + budget
	global _CTX, _DEADLINE
	_CTX = (eng, seed, canon)
	_DEADLINE = deadline
	violations: list[tuple[dict[str, Any], dict[str, Any]]] = []
	known_seen: dict[str, int] = {}
	state = {'done': 0, 'sim_time': 0.0}
	logs: dict[str, Any] = {}

	def absorb(i: int, res: dict[str, Any]) -> None:
		if res.get('skipped'):
			return
		state['done'] += 1
		ev.coverage['evaluations'] += 1
		ev.coverage['runs'] += 1
		ev.coverage['simulated_processes'] += res.get('processes', 0)
		state['sim_time'] += res.get('sim_time_s', 0.0)
		for table, counts in res.get('counters', {}).items():
			ev.merge_counts(table, counts)
		for key in res.get('distinct', []):
			ev.add_distinct(key)
		for key in res.get('states', []):
			ev.add_state(key)
		if str(res.get('label', '')).isdigit() and len(logs) < 3 and not res.get('violations'):
			logs[res['label']] = res.get('log')
		if res.get('case') is not None and len(ev.coverage['samples']) < 4:
			ev.coverage['samples'].append({'label': res['label'], 'case': eng.sample_of(res['case'])})
		for v in res.get('violations', []):
			if v.get('known'):
				known_seen[v['known']] = known_seen.get(v['known'], 0) + 1
			elif len(violations) < 2000:
				violations.append(({'case': res.get('case'), 'label': res.get('label')}, v))

	core.run_indexed(_work_i, range(total), deadline=deadline, on_result=absorb)
	done = state['done']
	sim_time = state['sim_time']
	for rec in eng.extra_passes(ev, tier, seed):
		violations.append(({'case': rec['case'], 'label': rec.get('label', 'enum'), 'from_pass': True}, rec['violation']))
	ev.coverage['canonical_histories'] = len(canon)
	ev.coverage['seeded_runs_done'] = max(0, done - len(canon))
	ev.coverage['seeded_runs_planned'] = n_seeded
	ev.coverage['seeds'] = {'master': seed, 'derivation': "sha256('master:PROP:index')[:8]", 'first': derive_seed(seed, eng.prop, 0), 'count': max(0, done - len(canon))}
	ev.coverage['simulated_time_s'] = round(sim_time, 3)
	ev.coverage['known_findings_seen'] = known_seen
	if done < len(canon):
		raise HarnessError(f'budget too small: only {done} of {len(canon)} canonical histories ran')

	if os.environ.get('TRANPSIM_DEBUG'):
		for res, v in violations:
			log(f"  [debug] case {res.get('label')}: {v.get('class')} op={v.get('op_index')} {json.dumps(v.get("detail"), default=str)[:4000]}")
	exit_code = 0
	reported: set[str] = set()
	for res, v in violations:
		sig = violation_sig(v)
		if sig in reported or len(reported) >= 5:
			continue
		reported.add(sig)
		case = res['case']
		if res.get('from_pass'):
			# found by an enumeration / spot-check pass: the case names the exact input; execute() re-derives it on replay
			res2 = eng.execute(case)
			again = [x for x in res2.get('violations', []) if x.get('class') == v['class']]
			if not again:
				raise HarnessError(f"violation {v['class']} from a pass did not reproduce through execute(): {json.dumps(v, default=str)[:500]}")
			path = core.write_replay(eng.prop, seed, res.get('label', 'pass'), {'case': case, 'violation': again[0]})
			print(f"violation: class={again[0]['class']} detail={json.dumps(again[0].get('detail'), default=str)[:800]}")
			print(f'VIOLATION property={eng.prop} replay={path}')
			exit_code = 1
			continue
		try:
			small = eng.minimise(case, v['class'])
		except Exception as e:  # minimisation is best effort
			log(f'minimise failed: {e}')
			small = case
		res2 = eng.execute(small)
		again = [x for x in res2.get('violations', []) if x.get('class') == v['class'] and not x.get('known')]
		if not again:
			small = case
			res2 = eng.execute(small)
			again = [x for x in res2.get('violations', []) if x.get('class') == v['class'] and not x.get('known')]
		if not again:
			raise HarnessError(f"violation {v['class']} of case {res.get('label')} did not reproduce on re-execution: {json.dumps(v, default=str)[:500]}")
		path = core.write_replay(eng.prop, seed, res.get('label', 'x'), {'case': small, 'violation': again[0], 'original_ops': len(case.get('ops', [])), 'minimised_ops': len(small.get('ops', []))})
		print(f"violation: class={again[0]['class']} detail={json.dumps(again[0].get('detail'), default=str)[:800]}")
		print(f'VIOLATION property={eng.prop} replay={path}')
		exit_code = 1
	ev.violations = len(violations)
	if exit_code == 0 and not opts.no_determinism:
		# only on a clean run: when the code under test itself depends on the hash seed the run has already reported that as a violation
		ev.coverage['determinism_check'] = determinism_spot_check(eng, seed, logs)
	for k in core.known_for(eng.prop):
		print(f"KNOWN-FINDING: property={eng.prop} {k['id']}: {k['what']} (observed {known_seen.get(k['id'], 0)}x in this run)")
	if not opts.no_evidence:
		ev.write()
	sys.stdout.flush()
	log(f"{eng.prop} {tier}: {done} cases ({len(canon)} canonical), {ev.coverage['simulated_processes']} simulated processes, {len(violations)} violations, {sum(known_seen.values())} known-finding hits, {time.time() - ev.t0:.1f}s")
	return exit_code
