"""Process bootstrap for every tranpsim entry point.

* re-exec with PYTHONHASHSEED=0 (the pickled Lark parser differs between hash
  seeds, so crash offsets are only portable under a pinned seed),
* install the typing.TypeIs shim (the pinned interpreter is 3.12, tranp targets 3.13),
* put $VERIF_REPO (default /repo) first on sys.path so the checks always import the
  current working tree.
"""
import os
import sys

VERIF_DIR = os.path.dirname(os.path.dirname(os.path.abspath(__file__)))
REPO = os.path.abspath(os.environ.get('VERIF_REPO', '/repo'))
HASHSEED = os.environ.get('TRANPSIM_HASHSEED', '0')


def pin_hashseed() -> None:
	"""Re-exec the interpreter once so that PYTHONHASHSEED is the pinned value."""
	if os.environ.get('PYTHONHASHSEED') != HASHSEED:
		env = dict(os.environ)
		env['PYTHONHASHSEED'] = HASHSEED
		env['PYTHONDONTWRITEBYTECODE'] = '1'
		argv = [sys.executable] + _orig_argv()
		os.execve(sys.executable, argv, env)


def _orig_argv() -> list[str]:
	orig = list(getattr(sys, 'orig_argv', []))
	if orig:
		return orig[1:]
	return sys.argv


_booted = False


def boot() -> None:
	"""Shim + import path. Idempotent."""
	global _booted
	if _booted:
		return
	_booted = True
	sys.dont_write_bytecode = True
	import typing
	if not hasattr(typing, 'TypeIs'):
		import typing_extensions
		typing.TypeIs = typing_extensions.TypeIs  # type: ignore[attr-defined]
	if VERIF_DIR not in sys.path:
		sys.path.insert(0, VERIF_DIR)
	# the repository under test always wins over an installed copy
	sys.path[:] = [p for p in sys.path if p and os.path.abspath(p) != REPO and not os.path.isdir(os.path.join(p, 'rogw'))]
	sys.path.insert(0, REPO)
	for name in list(sys.modules):
		if name == 'rogw' or name.startswith('rogw.'):
			raise RuntimeError('rogw imported before tranpsim.boot.boot()')


def import_pipeline() -> None:
	"""Import (never execute) everything a simulated process needs, so that forked children start warm."""
	boot()
	import rogw.tranp.bin.transpile  # noqa: F401
	import rogw.tranp.app.app  # noqa: F401
	import rogw.tranp.providers.semantics  # noqa: F401
	import rogw.tranp.providers.syntax.ast  # noqa: F401
	import rogw.tranp.providers.syntax.entrypoints  # noqa: F401
	import rogw.tranp.providers.syntax.resolver  # noqa: F401
	import rogw.tranp.providers.module  # noqa: F401
	import rogw.tranp.providers.cache  # noqa: F401
	import rogw.tranp.implements.syntax.lark.parser  # noqa: F401
	import rogw.tranp.semantics.reflection.persistent  # noqa: F401
	import rogw.tranp.semantics.reflection.serializer  # noqa: F401
	import rogw.tranp.semantics.reflections  # noqa: F401
	import rogw.tranp.semantics.finder  # noqa: F401
	import rogw.tranp.implements.transpiler.evaluator  # noqa: F401
	import rogw.tranp.transpiler.middleware  # noqa: F401
	import rogw.tranp.i18n.i18n  # noqa: F401
	import rogw.tranp.lang.trait  # noqa: F401
	import rogw.tranp.view.error_render  # noqa: F401
	import rogw  # noqa: F401
	path = os.path.abspath(rogw.__path__[0]) if hasattr(rogw, '__path__') else ''
	if not path.startswith(REPO):
		raise RuntimeError(f'rogw imported from {path}, expected under {REPO}')
