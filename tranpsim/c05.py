"""C05 — on-disk caches never change the result (persist-sim)."""
import random
from typing import Any

from tranpsim import pools
from tranpsim.core import Evidence, HarnessError, ddmin, known_for
from tranpsim.framework import Engine
from tranpsim.history import HistoryRunner
from tranpsim.persist import FAULT_KINDS, ColdOracle, Project, gen_fault_spec, is_cache

KF_TRANSITIVE = 'C05/symbol-cache-transitive-dependency'

DELTAS = [1, 1_000, 10**9 - 1, 10**9, 2 * 10**9, 3600 * 10**9]
SKEWS = [-1, -10**9, -86400 * 10**9, 5 * 365 * 86400 * 10**9]


def first_diff(a: dict[str, str], b: dict[str, str]) -> dict[str, Any]:
	for rel in sorted(set(a) | set(b)):
		if a.get(rel) != b.get(rel):
			la = (a.get(rel) or '<absent>').split('\n')
			lb = (b.get(rel) or '<absent>').split('\n')
			for n, (x, y) in enumerate(zip(la, lb)):
				if x != y:
					return {'file': rel, 'line': n + 1, 'warm': x[:160], 'cold': y[:160]}
			return {'file': rel, 'warm_lines': len(la), 'cold_lines': len(lb)}
	return {}


class C05Runner(HistoryRunner):
	def __init__(self, case: dict[str, Any]) -> None:
		super().__init__(case)
		self.known_ids = {k['id'] for k in known_for('C05')}
		self.truly_cold = bool(case.get('truly_cold'))

	def judge_run(self, ctx: dict[str, Any]) -> None:
		i, rec, outputs, fault, enabled = ctx['i'], ctx['rec'], ctx['outputs'], ctx['fault'], ctx['enabled']
		status = rec['status']
		self.bump('run_outcomes', ('faulted:' if fault else 'clean:') + status)
		if status == 'timeout':
			self.violation('run-does-not-terminate', i, {'fault': fault})
			return
		trace = rec.get('trace', [])
		if not enabled:
			io = [ev for ev in trace if ev[0] in ('open-r', 'open-w', 'write', 'unlink') and is_cache(ev[1])]  # (creating the directory is not a cache file access)
			if io:
				self.violation('disabled-cache-io', i, {'events': io[:6], 'n': len(io)}, sig=io[0][0])
		else:
			if any(ev[0] == 'open-r' and '-symbols-' in ev[1] and '/src/' in ev[1] for ev in trace):
				self.bump('probes', 'restore short-circuited preprocessors (pool module)')
			for a, b in zip(trace, trace[1:]):
				if a[0] == 'unlink' and '-symbols-' in a[1] and b[0] in ('unlink', 'open-w') and '-symbols-' not in b[1]:
					self.bump('probes', 'tree save evicted a symbols file')
					break
		if fault and rec.get('fault_fired'):
			if status == 'crashed':
				return
			if status == 'error':
				self.bump('probes', 'faulted run exited through the exception')
				return
		cold = self.cold.get(self.proj.state, truly_cold=self.truly_cold, modules=self.order)
		tainted_reads = self.tainted_read(rec, ctx['tainted_before'])
		if tainted_reads:
			self.bump('probes', 'run read a damaged cache file')
		if status == 'ok':
			if cold['status'] != 'ok':
				self.raise_or_known('warm-succeeds-cold-fails', ctx, {'cold_error': (cold.get('error') or {}).get('cls')})
			elif outputs != cold['outputs']:
				self.raise_or_known('output-differs', ctx, first_diff(outputs, cold['outputs']))
			else:
				self.bump('probes', 'warm == cold')
		elif status == 'error':
			if cold['status'] == 'ok':
				if tainted_reads and enabled:
					self.bump('probes', 'damaged cache file made the run fail (allowed)')
				else:
					self.raise_or_known('warm-fails-cold-succeeds', ctx, {'error': rec.get('error'), 'enabled': enabled})
			else:
				self.bump('probes', 'both fail')
				if (rec.get('error') or {}).get('cls') != (cold.get('error') or {}).get('cls'):
					self.bump('probes', 'both fail, different error class (not judged)')

	def judge_loop(self, i: int, op: dict[str, Any], loop_result: tuple, separate_result: tuple) -> None:
		"""The last run of a build loop is a run with the cache files its predecessors left behind: it must equal the cold run. When the same
		steps as separate processes already deviate (judged, known or not, on the ordinary path) and the loop shows the same result, nothing is added."""
		status, outputs, error = loop_result
		if status == 'timeout':
			self.violation('run-does-not-terminate', i, {'loop': True})
			return
		cold = self.cold.get(self.proj.state, modules=self.order)
		same_as_cold = (status == cold['status']) and (status != 'ok' or outputs == cold['outputs'])
		same_as_separate = (status == separate_result[0]) and (status != 'ok' or outputs == separate_result[1])
		if same_as_cold:
			self.bump('probes', 'build loop == cold')
		elif same_as_separate:
			self.bump('probes', 'build loop deviates exactly like the separate-process history (judged there)')
		else:
			detail = first_diff(outputs, cold['outputs']) if status == 'ok' and cold['status'] == 'ok' else {'loop_status': status, 'cold_status': cold['status'], 'error': error}
			self.violation('build-loop-output-differs', i, {**detail, 'runs_in_one_process': sum(1 for st in op['steps'] if st['op'] == 'run')}, sig=detail.get('file', ''))

	def raise_or_known(self, vclass: str, ctx: dict[str, Any], detail: dict[str, Any]) -> None:
		"""Compensated mode: neutralise exactly the effect the known finding describes and re-run from the same snapshot."""
		known = None
		if KF_TRANSITIVE in self.known_ids and ctx['enabled'] and not ctx['fault']:
			post = self.proj.sc.snapshot()
			self.proj.sc.restore(self.pre_snapshot)
			saved_written, self.written = self.written, self.pre_written
			comp = self.stale_transitive_symbol_files()
			self.written = saved_written
			if comp:
				for rel in comp:
					self.proj.sc.remove(rel)
				self.proj.sc.clear('out')
				rec2 = self.proj.run(force=True, enabled=True, modules=self.order)
				cold = self.cold.get(self.proj.state, truly_cold=self.truly_cold, modules=self.order)
				if rec2['status'] == cold['status'] and (rec2['status'] != 'ok' or self.proj.outputs() == cold['outputs']):
					known = KF_TRANSITIVE
				detail = {**detail, 'compensated_files': len(comp)}
			self.proj.sc.restore(post)
		self.violation(vclass, ctx['i'], detail, known=known, sig=detail.get('file', ''))


def op_run(enabled: bool = True, fault: dict[str, Any] | None = None) -> dict[str, Any]:
	op: dict[str, Any] = {'op': 'run', 'enabled': enabled}
	if fault:
		op['fault'] = fault
	return op


class C05(Engine):
	prop = 'C05'
	rule = ('case = one history (4-14 ops: edit/touch/run/clear/lose/truncate/sweep/loop (several runs inside one process), runs optionally with one injected fault) over a generated module pool; '
		'every run is compared with the same run from an empty cache. distinct_nontrivial = distinct op-kind/fault-kind sequences that contain '
		'at least one state-changing op (edit of content, clear, lost file, fault) between two judged runs')
	quick_runs = 70
	thorough_runs = 2500
	quick_budget_s = 110.0
	thorough_budget_s = 1700.0
	components_real = ['Runner', 'CacheProvider/CachedProxy/CachedDummy', 'SyntaxParserOfLark + Lark pickle save/load', 'SymbolDBPersistor', 'RestoreSymbols/StoreSymbols and the other preprocessors', 'FileLoader', 'Module.identity', 'Py2Cpp + Jinja renderer', 'Writer', 'real file system (tmpfs)']
	components_stubbed = Engine.components_stubbed + ['builtins.open / os.unlink / os.makedirs / time.sleep interposed (trace + injected faults)', 'mtimes assigned by the simulated clock (os.utime)']
	assumptions = [
		'two different contents of one source never share an mtime as reported by os.path.getmtime (premise of any mtime-keyed cache)',
		'histories are sequential: concurrent tranp processes sharing a cache directory are not simulated',
		'the default cold oracle starts from a library seed cache (parser pickle + library modules) written by this check from a truly empty directory; equality of truly-cold and library-seeded runs is established at start-up on validation pools and a share of cases runs truly cold',
		'a crash is kill -9 with write-through storage: bytes written before the crash point persist, nothing else',
	]

	def __init__(self) -> None:
		self.enum_counts: dict[str, int] = {}

	def prepare(self, ev: Evidence, tier: str) -> None:
		# (1) truly-cold == library-seeded on validation pools; (2) count write events for the enumeration pass
		for which in (0, 1):
			pool = pools.fixed_pool(which)
			oracle = ColdOracle(pool)
			try:
				state = {m: 0 for m in pool['modules']}
				a = oracle.get(state, truly_cold=True)
				b = oracle.get(state, truly_cold=False)
				if a['status'] != 'ok' or b['status'] != 'ok':
					# is it the corpus (harness trouble) or the caches (the canonical cache-disabled case will report it)?
					probe = Project(pool, tag='nocache')
					try:
						plain = probe.run(force=True, enabled=False)
					finally:
						probe.destroy()
					if plain['status'] != 'ok':
						raise HarnessError(f"validation pool {which} does not transpile: {a.get('error')} / {b.get('error')}")
					ev.bump('probes', 'validation pool fails from an empty cache directory but transpiles with caching disabled')
					self.enum_counts[f'{which}:cold'] = self.enum_counts[f'{which}:edit'] = 0
					continue
				if a['outputs'] != b['outputs']:
					raise HarnessError(f'library-seeded cold run differs from truly cold run on validation pool {which}: {first_diff(b["outputs"], a["outputs"])}')
			finally:
				oracle.destroy()
			proj = Project(pool, tag='count')
			try:
				rec = proj.run(force=True)
				self.enum_counts[f'{which}:cold'] = len([e for e in rec['trace'] if e[0] == 'write' and is_cache(e[1]) and e[2] >= 2])
				leaf = pools.core(pool)[-1]
				proj.set_variant(leaf, 1, 10**9)
				rec = proj.run(force=True)
				self.enum_counts[f'{which}:edit'] = len([e for e in rec['trace'] if e[0] == 'write' and is_cache(e[1]) and e[2] >= 2])
			finally:
				proj.destroy()
		ev.coverage['validation'] = {'truly_cold_equals_library_seeded_pools': 2, 'enumeration_write_events': dict(self.enum_counts)}
		self.tier = tier

	def canonical_cases(self) -> list[dict[str, Any]]:
		cases: list[dict[str, Any]] = []
		for which in ((0, 1) if getattr(self, 'tier', 'quick') == 'quick' else (0, 1, 3)):
			pool = pools.fixed_pool(which)
			mods = pools.core(pool)
			top, leaf = mods[0], mods[-1]
			mid = mods[1] if len(mods) > 2 else mods[-1]
			def c(ops: list[dict[str, Any]], **kw: Any) -> None:
				cases.append({'pool': pool, 'ops': ops, 'kind': 'canonical', **kw})
			c([op_run(), op_run()])
			c([op_run(), {'op': 'edit', 'm': leaf, 'v': 1, 'dt': 10**9}, op_run()])
			c([op_run(), {'op': 'edit', 'm': mid, 'v': 1, 'dt': 10**9}, op_run()])
			c([op_run(), {'op': 'edit', 'm': top, 'v': 1, 'dt': 10**9}, op_run()])
			c([op_run(enabled=False)])
			c([op_run(), op_run(enabled=False), op_run()])
			c([op_run(), {'op': 'touch', 'm': leaf, 'dt': 10**9}, op_run()])
			# an older timestamp comes back with other content after later runs superseded its cached state (cp -p / rsync -t)
			c([op_run(), {'op': 'edit', 'm': leaf, 'v': 1, 'dt': 10**9}, op_run(), {'op': 'edit', 'm': leaf, 'v': 2, 'reuse': 0}, op_run()])
			c([op_run(), {'op': 'edit', 'm': top, 'v': 1, 'dt': 10**9}, op_run(), {'op': 'edit', 'm': top, 'v': 2, 'dt': 10**9}, op_run(), {'op': 'edit', 'm': top, 'v': 0, 'reuse': 1}, op_run(), {'op': 'edit', 'm': top, 'v': 1, 'reuse': 0}, op_run()])
			# edits whose mtime moves by less than the coarsest granularity a cache key could have (1 us, just under 1 s, 1 s, 2 s)
			c([op_run(), {'op': 'edit', 'm': leaf, 'v': 1, 'dt': 1000}, op_run(), {'op': 'edit', 'm': leaf, 'v': 2, 'dt': 10**9 - 1}, op_run(), {'op': 'edit', 'm': leaf, 'v': 0, 'dt': 2 * 10**8}, op_run()])
			c([op_run(), {'op': 'edit', 'm': leaf, 'v': 1, 'dt': 10**9}, op_run(), {'op': 'edit', 'm': leaf, 'v': 0, 'dt': 10**9}, op_run()])
			c([op_run(), {'op': 'edit', 'm': leaf, 'v': 1, 'dt': -10**9}, op_run()])
			c([op_run(), {'op': 'lose', 'pick': 0.5, 'cls': 'tree'}, op_run()])
			c([op_run(), {'op': 'lose', 'pick': 0.5, 'cls': 'symbols'}, op_run()])
			c([op_run(), {'op': 'edit', 'm': leaf, 'v': 2, 'dt': 10**9}, op_run(fault={'kind': 'crash@write', 'pick': 0.5, 'prefer': 'symbols', 'kmode': 'half'}), op_run()])
			c([op_run(fault={'kind': 'crash@between-files', 'pick': 0.7, 'prefer': 'tree'}), op_run()])
			c([op_run(), {'op': 'edit', 'm': leaf, 'v': 1, 'dt': 10**9}, op_run(fault={'kind': 'crash@after-unlink', 'pick': 0.0, 'prefer': None}), op_run()])
			c([op_run(fault={'kind': 'enospc@write', 'pick': 0.9, 'prefer': 'symbols', 'kmode': 'half'}), op_run(), {'op': 'clear'}, op_run()])
			c([op_run(), {'op': 'edit', 'm': leaf, 'v': 1, 'dt': 10**9}, op_run(fault={'kind': 'eacces@unlink', 'pick': 0.0, 'prefer': None}), op_run()])
			c([op_run()], truly_cold=True)
			c([op_run(fault={'kind': 'crash@open', 'pick': 0.99, 'prefer': 'tree'}), op_run()])
			c([op_run(), {'op': 'edit', 'm': leaf, 'v': 1, 'dt': 10**9}, op_run(fault={'kind': 'crash@open', 'pick': 0.5, 'prefer': 'symbols'}), op_run()])
			if 'src.sb' in pool['variants']:
				# exchange the contents of two sibling modules that one importer imports both (identity must not be a multiset of hashes)
				c([op_run(), {'op': 'edit', 'm': 'src.sb', 'v': 1, 'dt': 10**9}, {'op': 'edit', 'm': 'src.sc', 'v': 0, 'dt': 10**9}, op_run()])
				c([op_run(), {'op': 'edit', 'm': 'src.sb', 'v': 2, 'dt': 10**9}, op_run(), {'op': 'edit', 'm': 'src.sc', 'v': 2, 'dt': 10**9}, {'op': 'edit', 'm': 'src.sb', 'v': 1, 'dt': 10**9}, op_run()])
				# the two siblings byte-identical at the same time (same text, same imports: one Module.identity for two modules), then apart again
				c([{'op': 'edit', 'm': 'src.sc', 'v': 0, 'dt': 10**9}, op_run(), op_run(), op_run(enabled=False), {'op': 'edit', 'm': 'src.sb', 'v': 2, 'dt': 10**9}, op_run(), op_run()])
		# prefix-related sibling modules that do not import each other, the longer-named one loaded first (src.ab before src.a)
		rngp = random.Random(9)
		fan = pools.gen_pool(rngp, shape='fan', n_variants=3, allow_invalid=False, names=['src.d', 'src.ab', 'src.a', 'src.a_b'], swap_p=0.0)
		for victim in ('src.ab', 'src.a_b', 'src.a'):
			cases.append({'pool': fan, 'kind': 'canonical', 'ops': [op_run(), {'op': 'edit', 'm': victim, 'v': 1, 'dt': 10**9}, op_run(), {'op': 'edit', 'm': victim, 'v': 2, 'dt': 10**9}, op_run()]})
		ex = pools.example_pool()
		cases.append({'pool': ex, 'kind': 'canonical', 'ops': [op_run(), op_run(), {'op': 'edit', 'm': 'example.FW.string', 'v': 1, 'dt': 10**9}, op_run(), op_run(enabled=False)]})
		cases.append({'pool': ex, 'kind': 'canonical', 'ops': [op_run(fault={'kind': 'crash@write', 'pick': 0.95, 'prefer': 'symbols', 'kmode': 'half'}), op_run(), {'op': 'clear'}, op_run()]})
		# fault-enumeration pass: every cache write event x offsets, then a normal run
		kmodes = ['0', '1', 'half', 'last']
		for which in (0, 1):
			pool = pools.fixed_pool(which)
			leaf = pools.core(pool)[-1]
			for stage in ('cold', 'edit'):
				n = self.enum_counts.get(f'{which}:{stage}', 0)
				pre = [] if stage == 'cold' else [op_run(), {'op': 'edit', 'm': leaf, 'v': 1, 'dt': 10**9}]
				combos = [(nth, kind, km) for nth in range(n) for kind, km in ([('crash@write', k) for k in kmodes] + [('crash@write+zeros', 'half'), ('crash@open', '0')])]
				if getattr(self, 'tier', 'quick') == 'quick':
					step = max(1, len(combos) // 6)
					combos = combos[which::step]
				for nth, kind, km in combos:
					cases.append({'pool': pool, 'kind': 'enumeration', 'ops': pre + [op_run(fault={'kind': kind, 'nth': nth, 'kmode': km}), op_run()]})
		# build loops: the same interpreter issues several runs, sources edited in between (process-wide memos must not outlive a run)
		for which in ((0,) if getattr(self, 'tier', 'quick') == 'quick' else (0, 1, 3)):
			pool = pools.fixed_pool(which)
			mods = pools.core(pool)
			top, leaf = mods[0], mods[-1]
			E = lambda m, v: {'op': 'edit', 'm': m, 'v': v, 'dt': 10**9}
			cases.append({'pool': pool, 'kind': 'loop', 'ops': [{'op': 'loop', 'steps': [op_run(), E(leaf, 1), op_run()]}]})
			cases.append({'pool': pool, 'kind': 'loop', 'ops': [op_run(), {'op': 'loop', 'steps': [op_run(), E(top, 1), op_run(), E(leaf, 2), E(top, 2), op_run()]}, op_run()]})
		# a raw read of a source cut short at a statement boundary (only code that reads sources unbuffered has such reads)
		cases.append({'pool': pools.fixed_pool(0), 'kind': 'short-read', 'ops': [{'op': 'short-read-sweep', 'm': pools.core(pools.fixed_pool(0))[-1], 'cap': 8 if getattr(self, 'tier', 'quick') == 'quick' else 40}]})
		# truncation pass: each class of cache file cut at byte offsets (head, interior, tail), then a normal run
		quick = getattr(self, 'tier', 'quick') == 'quick'
		offs: list[tuple[str, int]] = [('abs', 0), ('abs', 1), ('frac', 5000), ('end', 1)] if quick else \
			[('abs', k) for k in (0, 1, 2, 3, 7, 16, 64)] + [('frac', f) for f in range(300, 10000, 450)] + [('end', k) for k in (1, 2, 3, 4, 8, 17, 65)]
		for which in ((0,) if quick else (0, 1)):
			pool = pools.fixed_pool(which)
			mods = pools.core(pool)
			for cls, m in (('tree', mods[-1]), ('symbols', mods[0]), ('symbols', mods[-1]), ('parser', None), ('tree', mods[0])):
				if quick and (cls, m) in (('symbols', mods[-1]), ('tree', mods[0])):
					continue
				for off in offs:
					t = {'op': 'truncate', 'cls': cls, 'off': off}
					if m:
						t['m'] = m
					cases.append({'pool': pool, 'kind': 'truncation', 'ops': [op_run(), t, op_run()]})
				cases.append({'pool': pool, 'kind': 'truncation', 'ops': [op_run(), {**t, 'off': ('frac', 5000), 'zeros': True}, op_run()]})
		# record-boundary sweep of the symbols / tree files of the modules with the richest tables (free for single-document formats)
		for which in ((0,) if quick else (0, 1, 3)):
			pool = pools.fixed_pool(which)
			mods = pools.core(pool)
			sweeps = [{'op': 'sweep', 'cls': cls, 'm': m, 'cap': 30 if quick else 400} for cls in ('symbols', 'tree') for m in ((mods[0], mods[-1]) if quick else mods)]
			cases.append({'pool': pool, 'kind': 'sweep', 'ops': [op_run()] + sweeps})
		return cases

	def generate(self, rng: random.Random, index: int) -> dict[str, Any]:
		pool = pools.gen_pool(rng)
		mods = pool['modules']
		n_ops = rng.randint(4, 14)
		faulty = rng.random() < 0.45
		kinds_enabled = tuple(k for k in FAULT_KINDS if rng.random() < 0.6) or ('crash@write',)
		skew = rng.random() < 0.3
		w = {'edit': rng.uniform(1, 4), 'touch': rng.uniform(0, 1), 'run': rng.uniform(2, 4), 'clear': rng.uniform(0, 0.6), 'lose': rng.uniform(0, 1), 'nocache': rng.choice([0, 0, 0.15, 0.4])}
		deltas = [rng.choice(DELTAS) for _ in range(2)] if rng.random() < 0.5 else DELTAS
		ops: list[dict[str, Any]] = []
		if rng.random() < 0.8:
			ops.append(op_run())
		while len(ops) < n_ops:
			r = rng.choices(['edit', 'touch', 'run', 'clear', 'lose'], weights=[w['edit'], w['touch'], w['run'], w['clear'], w['lose']])[0]
			if r == 'edit':
				m = rng.choice(mods)
				dt = rng.choice(SKEWS) if skew and rng.random() < 0.3 else rng.choice(deltas)
				e = {'op': 'edit', 'm': m, 'v': rng.randrange(len(pool['variants'][m])), 'dt': dt}
				if skew and rng.random() < 0.2:
					e['reuse'] = rng.randrange(4)
				ops.append(e)
			elif r == 'touch':
				ops.append({'op': 'touch', 'm': rng.choice(mods), 'dt': rng.choice(deltas)})
			elif r == 'run':
				enabled = not (rng.random() < w['nocache'])
				fault = gen_fault_spec(rng, kinds_enabled) if (faulty and enabled and rng.random() < 0.4) else None
				ops.append(op_run(enabled, fault))
			elif r == 'clear':
				ops.append({'op': 'clear'})
			elif rng.random() < 0.25:
				steps: list[dict[str, Any]] = [op_run()]
				for _ in range(rng.randint(1, 3)):
					for _ in range(rng.randint(1, 2)):
						m = rng.choice(mods)
						steps.append({'op': 'edit', 'm': m, 'v': rng.randrange(len(pool['variants'][m])), 'dt': rng.choice(deltas)})
					steps.append(op_run())
				ops.append({'op': 'loop', 'steps': steps})
			elif faulty and rng.random() < 0.4:
				mode = rng.choice(['abs', 'end', 'frac'])
				ops.append({'op': 'truncate', 'cls': rng.choice(['tree', 'symbols', 'parser']), 'pick': round(rng.random(), 4), 'zeros': rng.random() < 0.2,
					'off': [mode, rng.randrange(10000) if mode == 'frac' else rng.choice([0, 1, 2, 3, 5, 8, 13, 100])]})
			else:
				ops.append({'op': 'lose', 'pick': round(rng.random(), 4), 'cls': rng.choice([None, 'tree', 'symbols', 'parser'])})
		if ops[-1]['op'] != 'run':
			ops.append(op_run())
		order = list(mods)
		if rng.random() < 0.5:
			rng.shuffle(order)
		return {'pool': pool, 'ops': ops, 'order': order, 'kind': 'seeded', 'truly_cold': rng.random() < 0.05}

	def execute(self, case: dict[str, Any]) -> dict[str, Any]:
		return C05Runner(case).execute()

	def minimise(self, case: dict[str, Any], vclass: str) -> dict[str, Any]:
		def fails(ops: list[dict[str, Any]]) -> bool:
			if not ops or not any(o['op'] == 'run' for o in ops):
				return False
			res = C05Runner({**case, 'ops': ops}).execute()
			return any(v['class'] == vclass and not v.get('known') for v in res['violations'])
		ops = ddmin(case['ops'], fails, budget=40)
		# fault simplification: drop faults one at a time
		for i, o in enumerate(ops):
			if o.get('fault'):
				cand = [dict(x) for x in ops]
				cand[i] = {k: v for k, v in o.items() if k != 'fault'}
				if fails(cand):
					ops = cand
		return {**case, 'ops': ops}

	def sample_of(self, case: dict[str, Any]) -> Any:
		return {'shape': case['pool']['shape'], 'modules': case['pool']['modules'], 'ops': case['ops']}
