"""Describers that run inside a simulated process. They are the harness's own view of trees and symbols —
never the serializer under test."""
import hashlib
import json
import os
from typing import Any


def _dg(obj: Any) -> str:
	return hashlib.sha256(json.dumps(obj, sort_keys=True, separators=(',', ':'), default=str).encode()).hexdigest()[:16]


# ---------------------------------------------------------------------------------------------
# syntax trees (C15)


def entry_view(entry: Any) -> Any:
	"""(name, value, is_empty, is_terminal, has_child, span, children...) through the public Entry interface."""
	sm = entry.source_map
	span = [sm['begin'][0], sm['begin'][1], sm['end'][0], sm['end'][1]]
	if entry.has_child:
		return [entry.name, None, entry.is_empty, entry.is_terminal, span, [entry_view(c) for c in entry.children]]
	return [entry.name, entry.value, entry.is_empty, entry.is_terminal, span, None]


def count_view(view: Any, stats: dict[str, int]) -> None:
	stats['entries'] = stats.get('entries', 0) + 1
	if view[2]:
		stats['empty_slots'] = stats.get('empty_slots', 0) + 1
	if view[3] and view[0].startswith('__'):
		stats['anonymous_tokens'] = stats.get('anonymous_tokens', 0) + 1
	if view[4] == [0, 0, 0, 0] and not view[2]:
		stats['span_less'] = stats.get('span_less', 0) + 1
	if view[5]:
		for c in view[5]:
			count_view(c, stats)


def tree_dump(app: Any, module_path: str, full: bool = False, quote_limit: int = 40) -> dict[str, Any]:
	from rogw.tranp.syntax.ast.entrypoints import Entrypoints
	from rogw.tranp.syntax.ast.finder import ASTFinder
	from rogw.tranp.syntax.ast.parser import SyntaxParser
	from rogw.tranp.view.error_render import ErrorRender

	parser = app.resolve(SyntaxParser)
	root = parser(module_path)
	view = entry_view(root)
	stats: dict[str, int] = {}
	count_view(view, stats)
	paths = ASTFinder().full_pathfy(root)
	path_rows = [[p, e.name, e.value if not e.has_child else None] for p, e in paths.items()]
	entrypoint = app.resolve(Entrypoints).load(module_path)
	node_rows = []
	quote_rows = []
	filepath = module_path.replace('.', os.sep) + '.py'
	can_quote = os.path.exists(filepath)
	step = max(1, len(paths) // quote_limit)
	for n, p in enumerate(paths):
		try:
			node = entrypoint.whole_by(p) if p != entrypoint.full_path else entrypoint
			row = [p, type(node).__name__, node.tokens if len(node.tokens) < 200 else _dg(node.tokens)]
			if can_quote and n % step == 0:
				sm = node.source_map
				if sm['begin'][0] > 0:
					q = ErrorRender.Quotation(filepath, (sm['begin'][0] - 1, sm['begin'][1] - 1, sm['end'][0] - 1, sm['end'][1] - 1)).build()
					quote_rows.append([p, q])
		except Exception as e:  # class of the failure is part of the view
			row = [p, f'!{type(e).__name__}', '']
		node_rows.append(row)
	out: dict[str, Any] = {
		'entries': _dg(view), 'paths': _dg(path_rows), 'nodes': _dg(node_rows), 'quotes': _dg(quote_rows),
		'stats': stats, 'n_paths': len(paths), 'n_quotes': len(quote_rows),
	}
	if full:
		out['full'] = {'entries': view, 'paths': path_rows, 'nodes': node_rows, 'quotes': quote_rows}
	return out


def observe_trees(full_for: str | None = None):
	def observe(app: Any, seams: Any) -> dict[str, Any]:
		from rogw.tranp.module.modules import Modules
		modules = app.resolve(Modules)
		out = {}
		for module in modules.loaded():
			if not module.in_storage():
				continue
			out[module.path] = tree_dump(app, module.path, full=(full_for == module.path))
		return out
	return observe


# ---------------------------------------------------------------------------------------------
# symbol table (C14)


def type_desc(sym: Any, depth: int = 0) -> Any:
	"""Type description: fullyname of the symbol's type and, recursively to full depth, of its attrs."""
	if depth > 12:
		return ['...']
	return [sym.types.fullyname, [type_desc(a, depth + 1) for a in sym.attrs]]


def symbol_row(sym: Any) -> list[Any]:
	from rogw.tranp.semantics.reflection.helper.naming import ClassShorthandNaming
	try:
		debug = ClassShorthandNaming.domain_name_for_debug(sym)
	except Exception as e:
		debug = f'!{type(e).__name__}'
	return [
		type_desc(sym),
		debug,
		[sym.decl.module_path, sym.decl.full_path],
		[sym.node.module_path, sym.node.full_path],
		sym.via.types.fullyname,
		type(sym).__name__,
	]


def symbols_dump(db: Any, module_path: str | None = None) -> dict[str, Any]:
	rows: dict[str, Any] = {}
	for key, sym in db.items(module_path):
		try:
			rows[key] = symbol_row(sym)
		except Exception as e:
			rows[key] = [f'!{type(e).__name__}: {str(e)[:80]}']
	return rows


def observe_symbols():
	def observe(app: Any, seams: Any) -> dict[str, Any]:
		from rogw.tranp.module.modules import Modules
		from rogw.tranp.semantics.reflection.db import SymbolDB
		db = app.resolve(SymbolDB)
		modules = app.resolve(Modules)
		loaded = [m.path for m in modules.loaded()]
		rows = symbols_dump(db)
		depth_hist: dict[str, int] = {}
		for row in rows.values():
			d = _depth(row[0]) if row and isinstance(row[0], list) else 0
			depth_hist[str(d)] = depth_hist.get(str(d), 0) + 1
		return {'rows': rows, 'completed': {m: db.completed(m) for m in loaded}, 'loaded': loaded, 'depth_hist': depth_hist}
	return observe


def _depth(desc: Any) -> int:
	if not isinstance(desc, list) or len(desc) < 2 or not desc[1]:
		return 0
	return 1 + max(_depth(a) for a in desc[1])
