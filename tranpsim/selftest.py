"""Self-tests of the harness.

  python -m tranpsim.selftest determinism [PROPS...]   every case twice: other hash seed, fresh interpreter, 1 and 16 workers
  python -m tranpsim.selftest sensitivity [PROPS...|NAMES...]   seeded one-line defects in a scratch copy must be reported

A divergence / a missed mutant is reported here and never becomes a verdict about tranp.
"""
import json
import os
import shutil
import subprocess
import sys
import tempfile
import time
from typing import Any

VERIF = os.path.dirname(os.path.dirname(os.path.abspath(__file__)))
PY = sys.executable

# (property, name, file, old, new)
MUTANTS: list[tuple[str, str, Any, str, str]] = [
	('C04', 'loader-unload-keeps-symbols', 'rogw/tranp/providers/module.py', '		self.db.unload(module_path.path)\n', ''),
	('C04', 'entrypoints-unload-noop', 'rogw/tranp/syntax/ast/entrypoints.py', '		if module_path in self.__entrypoints:\n			del self.__entrypoints[module_path]\n', '		pass\n'),
	('C04', 'symboldb-unload-by-prefix', 'rogw/tranp/semantics/reflection/db.py', 'in_module_keys = [key for key in self.__items.keys() if self.__paths[key][0] == module_path]', 'in_module_keys = [key for key in self.__items.keys() if self.__paths[key][0].startswith(module_path)]'),
	('C04', 'depends-stack-reads-bottom', 'rogw/tranp/implements/cpp/transpiler/py2cpp.py', '		depends = self.__stack_on_depends[-1].copy()\n', '		depends = self.__stack_on_depends[0].copy()\n'),
	('C04', 'depends-stack-never-popped', 'rogw/tranp/implements/cpp/transpiler/py2cpp.py', '		self.__stack_on_depends.append([])\n		result = self.__procedure.exec(node)\n		self.__stack_on_depends.pop()\n', '		if not self.__stack_on_depends:\n			self.__stack_on_depends.append([])\n		result = self.__procedure.exec(node)\n'),
	('C05', 'tree-identity-without-mtime', 'rogw/tranp/implements/syntax/lark/parser.py', "\t\t\t'mtime': str(self.__sources.mtime(source_path)),\n", ''),
	('C05', 'symbol-identity-without-imports', 'rogw/tranp/module/module.py', "		depends_files = [module_path_to_filepath(import_node.import_path.tokens, f'.{self.module_path.language}') for import_node in self.entrypoint.imports]\n", '		depends_files = []\n'),
	('C05', 'cache-enabled-flag-inverted-for-dummy', 'rogw/tranp/cache/cache.py', 'ctor = CachedProxy if self.__setting.enabled else CachedDummy', 'ctor = CachedProxy'),
	('C05', 'restore-ignores-enabled', 'rogw/tranp/semantics/reflection/persistent.py', 'return self.setting.enabled and module.in_storage() and self.sources.exists(filepath)', 'return module.in_storage() and self.sources.exists(filepath)'),
	('C05', 'store-ignores-enabled', 'rogw/tranp/semantics/reflection/persistent.py', 'return self.setting.enabled and module.in_storage() and not self.sources.exists(filepath)', 'return module.in_storage() and not self.sources.exists(filepath)'),
	('C05', 'load-cache-swallows-errors', 'rogw/tranp/cache/cache.py', "		with open(cache_path, mode='rb') as f:\n			return self._stored.load(f)\n", "		try:\n			with open(cache_path, mode='rb') as f:\n				return self._stored.load(f)\n		except Exception:\n			import glob as _g\n			for other in sorted(_g.glob(os.path.join(os.path.dirname(cache_path), '*.json'))):\n				try:\n					with open(other, mode='rb') as f:\n						return self._stored.load(f)\n				except Exception:\n					pass\n			raise\n"),
	('C05', 'restore-then-continue', 'rogw/tranp/semantics/processors/restore_symbols.py', '			self.persistor.restore(module, db)\n			return False\n', '			self.persistor.restore(module, db)\n			return True\n'),
	('C06', 'can-transpile-compares-app-version-only', 'rogw/tranp/bin/transpile.py', '		return new_meta != old_meta\n', '		return new_meta.app_version != old_meta.app_version\n'),
	('C06', 'header-never-found-in-existing-output', 'rogw/tranp/data/meta/header.py', '		header_begin = content.find(MetaHeader.Tag)\n', '		header_begin = content.find(MetaHeader.Tag, 3)\n'),
	('C06', 'writer-retry-removed', 'rogw/tranp/file/writer.py', '		try:\n			self._flush(abs_filepath)\n		except PermissionError:\n			# XXX 連続して出力すると稀にエラーが発生するため、若干間隔を空けて再出力を試行\n			time.sleep(0.1)\n			self._flush(abs_filepath)\n', '		self._flush(abs_filepath)\n'),
	('C06', 'header-hash-from-mtime', 'rogw/tranp/providers/module.py', "		return {'hash': sources.hash(filepath), 'path': module_path}\n", "		return {'hash': str(int(sources.mtime(filepath))), 'path': module_path}\n"),
	('C07', 'disk-branch-does-not-wrap-parser-errors', 'rogw/tranp/implements/syntax/lark/parser.py', '			try:\n				return EntryStored(EntryOfLark(parser.parse(self.__source_provider(module_path))))\n			except Exception as e:\n				raise Errors.Syntax(source_path, e) from e\n', '			return EntryStored(EntryOfLark(parser.parse(self.__source_provider(module_path))))\n'),
	('C07', 'memory-branch-does-not-wrap-parser-errors', 'rogw/tranp/implements/syntax/lark/parser.py', '			try:\n				return EntryOfLark(parser.parse(self.__source_provider(module_path)))\n			except Exception as e:\n				raise Errors.Syntax(source_path, e) from e\n', '			return EntryOfLark(parser.parse(self.__source_provider(module_path)))\n'),
	('C07', 'procedure-reraises-foreign-exceptions', 'rogw/tranp/semantics/procedure.py', "		except Exception as e:\n			raise Errors.Fatal(node, 'Unhandled error', e) from e\n", '		except Exception as e:\n			raise\n'),
	('C07', 'interactive-catches-syntax-only', 'rogw/tranp/bin/transpile.py', '				except Errors.Error as e:\n					print(ErrorRender(e))\n', '				except Errors.Syntax as e:\n					print(ErrorRender(e))\n'),
	('C07', 'quotation-without-existence-check', 'rogw/tranp/view/error_render.py', '		if not os.path.exists(filepath):\n			return []\n', ''),
	('C07', 'ancestor-uses-list-index', 'rogw/tranp/syntax/node/query.py', 'index = elems.index(tag) if tag in elems else -1', 'index = elems.index(tag)'),
	('C07', 'preprocess-lets-builtin-exceptions-through', 'rogw/tranp/providers/module.py', "			except Exception as e:\n				raise Errors.Fatal(module, 'Unhandled error', e) from e\n", '			except Exception as e:\n				raise\n'),
	('C09', 'exec-reuses-the-current-stack', 'rogw/tranp/semantics/procedure.py', '		self.__stacks.append([])\n		try:', '		self.__stacks.append(self.__stacks[-1] if self.__stacks else [])\n		try:'),
	('C09', 'exec-without-finally', 'rogw/tranp/semantics/procedure.py', '		try:\n			return self.__exec_impl(root)\n		finally:\n			self.__stacks.pop()\n', '		result = self.__exec_impl(root)\n		self.__stacks.pop()\n		return result\n'),
	('C09', 'event-built-in-forward-property-order', 'rogw/tranp/semantics/procedure.py', '			prop_keys = reversed(node.prop_keys())\n', '			prop_keys = node.prop_keys()\n'),
	('C09', 'list-length-at-least-one', 'rogw/tranp/semantics/procedure.py', '					counts = len(getattr(node, prop_key))\n', '					counts = max(1, len(getattr(node, prop_key)))\n'),
	('C09', 'list-results-not-reversed-back', 'rogw/tranp/semantics/procedure.py', '					event[prop_key] = list(reversed([self.__stack_pop() for _ in range(counts)]))\n', '					event[prop_key] = [self.__stack_pop() for _ in range(counts)]\n'),
	('C10', 'candidate-order-depends-on-instantiation-count', 'rogw/tranp/syntax/node/resolver.py', '		for ctor in ctors:\n', '		for ctor in (ctors if len(self.__insts) % 7 else list(reversed(ctors))):\n'),
	('C10', 'memo-key-collision-children-expand', 'rogw/tranp/syntax/node/query.py', "return self.__memo.get(f'children.{via}', factory)", "return self.__memo.get(f'expand.{via}', factory)"),
	('C10', 'index-form-only-for-three-or-more', 'rogw/tranp/syntax/ast/finder.py', 'indivisual = len(tag_of_indexs[entry_tag]) == 1', 'indivisual = len(tag_of_indexs[entry_tag]) <= 2'),
	('C10', 'pluck-ignores-index-zero', 'rogw/tranp/syntax/ast/finder.py', 'if index >= 0 and index < len(children):', 'if index > 0 and index < len(children):'),
	('C10', 'entry-cache-drops-child-map', 'rogw/tranp/syntax/ast/cache.py', '			self.__children[in_path][last] = True\n', '			if len(remain) < 6:\n				self.__children[in_path][last] = True\n'),
	('C10', 'ancestor-off-by-one', 'rogw/tranp/syntax/node/query.py', 'slices = len(elems) - index', 'slices = max(1, len(elems) - index - 1)'),
	('C10', 'parent-memo-ignores-path', 'rogw/tranp/syntax/node/query.py', "return self.__memo.get(f'parent.{via}', factory)", "return self.__memo.get(f'parent.{via.count(\".\")}.{via.split(\".\")[-1]}', factory)"),
	('C10', 'entry-ids-by-sorted-path', 'rogw/tranp/syntax/ast/cache.py', '		return self.__indexs[full_path] if self.exists(full_path) else -1', '		return sorted(self.__indexs).index(full_path) if self.exists(full_path) else -1'),
	('C14', 'deserialize-attrs-lexicographic-order', 'rogw/tranp/semantics/reflection/serializer.py', "paths = sorted(data_attrs.keys(), key=lambda key: key.count('.'))", 'paths = sorted(data_attrs.keys())'),
	('C14', 'deep-attrs-attached-to-first', 'rogw/tranp/semantics/reflection/serializer.py', '			attr = attrs[index_keys.pop(0)]\n', '			attr = attrs[0]\n			index_keys.pop(0)\n'),
	('C14', 'serialize-omits-via', 'rogw/tranp/semantics/reflection/serializer.py', "'via': symbol.via.types.fullyname,", "'via': symbol.types.fullyname,"),
	('C14', 'order-keys-not-recursive', 'rogw/tranp/semantics/reflection/db.py', '		for attr in symbol.attrs:\n			self._order_keys_recursive(for_module_path, attr, orders)\n', ''),
	('C14', 'import-does-not-mark-completed', 'rogw/tranp/semantics/reflection/db.py', '			if not self.completed(module_path):\n				self.on_complete(module_path)\n', ''),
	('C15', 'dump-drops-empty-children', 'rogw/tranp/implements/syntax/lark/entry.py', '				children.append(cls.__dumps(child.source))\n', '				if child.source is not None:\n					children.append(cls.__dumps(child.source))\n'),
	('C15', 'load-forgets-end-line', 'rogw/tranp/implements/syntax/lark/entry.py', "			meta.end_line = entry_tree['source_map'][2]\n", "			meta.end_line = entry_tree['source_map'][0]\n"),
	('C15', 'token-line-not-restored', 'rogw/tranp/implements/syntax/lark/entry.py', "			token.line = entry_token['source_map'][0]\n", ''),
	('C15', 'meta-empty-left-true', 'rogw/tranp/implements/syntax/lark/entry.py', '			meta.empty = False\n', '			meta.empty = len(children) == 1\n'),
	('C19', 'clone-shares-instance-table', 'rogw/tranp/lang/di.py', '		di.__instances = self.__instances.copy()\n', '		di.__instances = self.__instances\n'),
	('C19', 'clone-shares-injector-table', 'rogw/tranp/lang/di.py', '		di.__injectors = self.__injectors.copy()\n', '		di.__injectors = self.__injectors\n'),
	('C19', 'combine-keeps-left-instances', 'rogw/tranp/lang/di.py', '			di.__instances.pop(symbol, None)\n', '			pass\n'),
	('C19', 'unbind-keeps-instance', 'rogw/tranp/lang/di.py', '			if found_symbol in self.__instances:\n				del self.__instances[found_symbol]\n', ''),
	('C19', 'resolve-does-not-memoise', 'rogw/tranp/lang/di.py', '		return self.__instances[found_symbol]\n', '		return self.__instances.pop(found_symbol)\n'),
	('C19', 'invoke-skips-unresolvable-and-continues', 'rogw/tranp/lang/di.py', '			if not self.can_resolve(anno):\n				break\n', '			if not self.can_resolve(anno):\n				continue\n'),
	('C19', 'lazy-clone-shares-definitions', 'rogw/tranp/lang/di.py', '		di.__definitions = self.__definitions.copy()\n', '		di.__definitions = self.__definitions\n'),
	('C19', 'invoke-validates-first-call-only', 'rogw/tranp/lang/di.py', '		self.__assert_invoke(factory, annos, curried_args, *remain_args)\n		return factory', '		if len(self.__invocations) < 2:\n			self.__assert_invoke(factory, annos, curried_args, *remain_args)\n		return factory'),
	('C19', 'lazy-unbind-keeps-definition', 'rogw/tranp/lang/di.py', '		if self.can_resolve(symbol):\n			self.__unregister(self.__symbolize(symbol))\n', ''),
]


def make_mutant(file: Any, old: str, new: str) -> str:
	"""Scratch copy of the repository (outside /repo and /verif) with one replacement (or a list of (file, old, new)) applied."""
	root = tempfile.mkdtemp(prefix='tranpmut-', dir='/dev/shm' if os.path.isdir('/dev/shm') else None)
	repo = os.environ.get('TRANPSIM_BASE_REPO', '/repo')
	for name in ('rogw', 'data', 'example'):
		shutil.copytree(os.path.join(repo, name), os.path.join(root, name), ignore=shutil.ignore_patterns('__pycache__'))
	edits = file if isinstance(file, list) else [(file, old, new)]
	for f, o, n in edits:
		path = os.path.join(root, f)
		with open(path) as fh:
			src = fh.read()
		if src.count(o) != 1:
			shutil.rmtree(root, ignore_errors=True)
			raise SystemExit(f'mutant pattern matches {src.count(o)} times in {f}: {o!r}')
		with open(path, 'w') as fh:
			fh.write(src.replace(o, n))
	return root


def run_check(prop: str, repo: str | None, extra: list[str], env_extra: dict[str, str] | None = None, timeout: int = 900) -> tuple[int, str]:
	env = dict(os.environ)
	if repo:
		env['VERIF_REPO'] = repo
	env.update(env_extra or {})
	p = subprocess.run([PY, '-m', 'tranpsim.check', prop, *extra], cwd=VERIF, env=env, capture_output=True, text=True, timeout=timeout)
	return p.returncode, p.stdout + p.stderr


def sensitivity(selectors: list[str]) -> int:
	failed = 0
	rows = [m for m in MUTANTS if not selectors or m[0] in selectors or m[1] in selectors]
	for prop, name, file, old, new in rows:
		root = make_mutant(file, old, new)
		t0 = time.time()
		try:
			code, out = run_check(prop, root, ['--tier', 'quick', '--no-evidence'])
			replay_ok = None
			if code == 1:
				lines = [ln for ln in out.splitlines() if ln.startswith('VIOLATION ')]
				path = lines[0].split('replay=')[1].strip()
				rc2, _ = run_check(prop, root, ['--replay', path])
				rc3, _ = run_check(prop, None, ['--replay', path])
				replay_ok = (rc2 == 1, rc3 == 0)
			verdict = 'CAUGHT' if code == 1 else ('HARNESS-ERROR' if code == 2 else 'MISSED')
			if code != 1:
				failed += 1
			print(f'{prop} {name}: {verdict} exit={code} replay(on mutant fails, on /repo passes)={replay_ok} {time.time() - t0:.0f}s', flush=True)
			if code != 1:
				print('\n'.join(out.splitlines()[-8:]))
		finally:
			shutil.rmtree(root, ignore_errors=True)
	print(f'sensitivity: {len(rows) - failed}/{len(rows)}')
	return 1 if failed else 0


def digests(prop: str, indices: str, hashseed: str, workers: str) -> dict[str, str]:
	code, out = run_check(prop, None, ['--digests', '--indices', indices], {'TRANPSIM_HASHSEED': hashseed, 'TRANPSIM_WORKERS': workers})
	for ln in out.splitlines():
		if ln.startswith('DIGESTS '):
			return json.loads(ln[8:])
	raise SystemExit(f'no digests from {prop}: exit {code}\n{out[-2000:]}')


def determinism(props: list[str], n: int = 12) -> int:
	from tranpsim.check import ENGINES
	bad = 0
	for prop in props or sorted(ENGINES):
		idx = ','.join(str(i) for i in range(0, n * 2, 2))
		a = digests(prop, idx, '0', '1')
		b = digests(prop, idx, '1', '1')
		c = digests(prop, idx, '12345', '1')
		same = a == b == c
		if not same:
			bad += 1
			for k in a:
				if not (a[k] == b.get(k) == c.get(k)):
					print(f'  DIVERGENCE {prop} case {k}: {a[k]} / {b.get(k)} / {c.get(k)}')
		print(f'determinism {prop}: {len(a)} cases x 3 interpreters (PYTHONHASHSEED 0/1/12345): {"identical" if same else "DIVERGED"}', flush=True)
	return 1 if bad else 0


def main() -> int:
	if len(sys.argv) < 2:
		print(__doc__)
		return 2
	sys.path.insert(0, VERIF)
	if sys.argv[1] == 'sensitivity':
		return sensitivity(sys.argv[2:])
	if sys.argv[1] == 'determinism':
		return determinism(sys.argv[2:])
	print(__doc__)
	return 2


if __name__ == '__main__':
	sys.exit(main())
