"""History executor for persist-sim: applies edit / touch / run / clear / lose operations to one Project,
keeps the simulator's own bookkeeping (which cache file was written in which world, which are tainted by a fault),
and hands every run to a property-specific judge."""
import os
import re
from typing import Any

from tranpsim import pools
from tranpsim.core import digest
from tranpsim.persist import ColdOracle, Project, canon_trace, file_class, is_cache, resolve_fault

_SYM = re.compile(r'^\.cache/tranp/(.+)-symbols-[0-9a-f]{32}\.json$')
_TREE = re.compile(r'^\.cache/tranp/(.+)-[0-9a-f]{32}\.json$')


def module_of_cache_file(rel: str) -> tuple[str, str] | None:
	"""-> (module path, 'symbols'|'tree') for per-module cache files."""
	m = _SYM.match(rel)
	if m:
		return m.group(1).replace('/', '.'), 'symbols'
	m = _TREE.match(rel)
	if m:
		return m.group(1).replace('/', '.'), 'tree'
	return None


def stale_transitive_files(pool: dict[str, Any], state: dict[str, int], written: dict[str, dict[str, Any]], cache_files: list[str]) -> list[str]:
	"""Signature of known finding C05/symbol-cache-transitive-dependency:
	symbols files whose module and direct imports are unchanged since the file was written while a module reachable
	through >= 2 import hops (and not directly imported) changed."""
	out = []
	for rel in cache_files:
		mk = module_of_cache_file(rel)
		if not mk or mk[1] != 'symbols' or mk[0] not in state:
			continue
		m = mk[0]
		w = written.get(rel)
		if not w:
			continue
		changed = {x for x in state if w['state'].get(x) != state[x]}
		then_state = {**state, **{k: v for k, v in w['state'].items() if k in state}}
		direct = set(pools.direct_imports(pool, state, m)) | set(pools.direct_imports(pool, then_state, m))
		closure = pools.import_closure(pool, state, m) | pools.import_closure(pool, then_state, m)
		if m in changed or (changed & direct):
			continue
		if changed & (closure - direct - {m}):
			out.append(rel)
	return sorted(out)


def account_cache_writes(written: dict[str, dict[str, Any]], trace: list[list[Any]], state: dict[str, int], existing: set[str], run_no: int = 0) -> None:
	snapshot_state = dict(state)
	for ev in trace:
		if ev[0] == 'open-w' and is_cache(ev[1]):
			written[ev[1]] = {'state': snapshot_state, 'run': run_no}
	for rel in list(written):
		if rel not in existing:
			del written[rel]


class HistoryRunner:
	"""Subclass and override judge_run()."""

	def __init__(self, case: dict[str, Any], observe: Any = None) -> None:
		self.case = case
		self.pool = case['pool']
		self.ops = case['ops']
		self.config = case.get('config')
		self.order = case.get('order') or list(self.pool['modules'])
		self.observe = observe
		self.proj = Project(self.pool, self.config, tag='hist')
		self.cold = ColdOracle(self.pool, self.config)
		self.violations: list[dict[str, Any]] = []
		self.counters: dict[str, dict[str, int]] = {}
		self.distinct: set[str] = set()
		self.states: set[str] = set()
		self.log: list[Any] = []
		self.hex_table: dict[str, str] = {}
		self.tainted: set[str] = set()
		# cache file -> {'state': {module: variant}, 'run': n}
		self.written: dict[str, dict[str, Any]] = {}
		self.run_no = 0
		self.kinds_seq: list[str] = []
		self.changed_since_obs = False
		# mtime (ns) history per module and the mtime whose tree the cache can still hold (the one of the latest run that touched the tree cache)
		self.stamps: dict[str, list[int]] = {}
		self.cached_stamp: dict[str, int] = {}
		self.context_note: dict[str, Any] = {}

	# -- bookkeeping helpers

	def bump(self, table: str, key: str, n: int = 1) -> None:
		t = self.counters.setdefault(table, {})
		t[key] = t.get(key, 0) + n

	def violation(self, vclass: str, op_index: int, detail: Any, known: str | None = None, **kw: Any) -> None:
		if self.context_note and isinstance(detail, dict):
			detail = {**detail, **self.context_note}
		self.violations.append({'class': vclass, 'op_index': op_index, 'detail': detail, 'known': known, **kw})

	def account_trace(self, rec: dict[str, Any], fault: dict[str, Any] | None) -> None:
		"""Update written/tainted from the I/O trace of a finished process."""
		trace = rec.get('trace', [])
		for ev in trace:
			if ev[0] in ('open-w', 'open-r') and is_cache(ev[1]):
				mk = module_of_cache_file(ev[1])
				if mk and mk[1] == 'tree' and mk[0] in self.proj.state:
					self.cached_stamp[mk[0]] = os.stat(self.proj.sc.path(pools.module_relpath(mk[0]))).st_mtime_ns
		snapshot_state = dict(self.proj.state)
		for ev in trace:
			if ev[0] == 'open-w' and is_cache(ev[1]):
				self.written[ev[1]] = {'state': snapshot_state, 'run': self.run_no}
				self.tainted.discard(ev[1])
		fired = rec.get('fault_fired', [])
		if fault and fired and fault.get('kind') in ('crash@open', 'crash@write', 'crash@write+zeros', 'enospc@write'):
			self.tainted.add(fault['path'])
		existing = set(self.proj.cache_files())
		self.tainted &= existing
		for rel in list(self.written):
			if rel not in existing:
				del self.written[rel]
		for kind in fired:
			self.bump('faults_fired', kind)

	def tainted_read(self, rec: dict[str, Any], tainted_before: set[str]) -> list[str]:
		return [ev[1] for ev in rec.get('trace', []) if ev[0] == 'open-r' and ev[1] in tainted_before]

	def cache_state_abstraction(self) -> str:
		"""Per module (tree: none/fresh/stale/damaged) x (symbols: none/fresh/stale-own/stale-direct/stale-transitive/damaged)."""
		parts = []
		files = self.proj.cache_files()
		by_mod: dict[str, dict[str, str]] = {}
		for rel in files:
			mk = module_of_cache_file(rel)
			if mk and mk[0] in self.proj.state:
				by_mod.setdefault(mk[0], {})[mk[1]] = rel
		state = self.proj.state
		for m in sorted(state):
			t = s = 'none'
			f = by_mod.get(m, {})
			if 'tree' in f:
				rel = f['tree']
				w = self.written.get(rel)
				t = 'damaged' if rel in self.tainted else ('fresh' if w and w['state'].get(m) == state[m] else 'stale')
			if 'symbols' in f:
				rel = f['symbols']
				w = self.written.get(rel)
				if rel in self.tainted:
					s = 'damaged'
				elif not w:
					s = 'unknown'
				else:
					changed = {x for x in state if w['state'].get(x) != state[x]}
					direct = set(pools.direct_imports(self.pool, state, m))
					closure = pools.import_closure(self.pool, state, m)
					if m in changed:
						s = 'stale-own'
					elif changed & direct:
						s = 'stale-direct'
					elif changed & closure:
						s = 'stale-transitive'
					else:
						s = 'fresh'
			parts.append(f'{t}/{s}')
		return ','.join(parts)

	def stale_transitive_symbol_files(self) -> list[str]:
		return stale_transitive_files(self.pool, self.proj.state, self.written, self.proj.cache_files())

	# -- op execution

	def execute(self) -> dict[str, Any]:
		try:
			for i, op in enumerate(self.ops):
				self.apply(i, op)
			sim_time = self.proj.sc.clock.elapsed / 1e9
			processes = self.proj.processes + (self.cold.proj.processes if self.cold.proj else 0)
			nontrivial = [k for k in self.distinct]
			return {
				'violations': self.violations, 'counters': self.counters, 'distinct': sorted(nontrivial), 'states': sorted(self.states),
				'log': digest(self.log), 'processes': processes, 'sim_time_s': sim_time,
			}
		finally:
			self.proj.destroy()
			self.cold.destroy()

	def apply(self, i: int, op: dict[str, Any]) -> None:
		kind = op['op']
		self.bump('ops', kind)
		if kind == 'edit':
			m = op['m']
			before = self.proj.state[m]
			reuse = None
			if op.get('reuse') is not None:
				# restore-with-preserved-timestamp: an OLDER mtime of this file comes back with another content. Premise kept: never the mtime
				# of the state the cache may still hold (a later run at another mtime has superseded every other one).
				rel = pools.module_relpath(m)
				cur = os.stat(self.proj.sc.path(rel)).st_mtime_ns
				cands = sorted(t for t in set(self.stamps.get(m, [])) if t != cur and t != self.cached_stamp.get(m))
				if cands:
					reuse = cands[op['reuse'] % len(cands)]
			if reuse is not None:
				variant = op['v'] % len(self.pool['variants'][m])
				self.proj.state[m] = variant
				t = self.proj.sc.edit_at(pools.module_relpath(m), self.pool['variants'][m][variant]['src'].encode('utf-8'), reuse)
				self.bump('faults_fired', 'clock: older mtime restored with other content')
			else:
				t = self.proj.set_variant(m, op['v'], op.get('dt', 10**9))
			self.stamps.setdefault(m, []).append(t)
			if self.proj.state[m] != before:
				self.changed_since_obs = True
			if op.get('dt', 1) < 0:
				self.bump('probes', 'mtime went backwards')
			self.log.append(['edit', m, self.proj.state[m], t - self.proj.sc.clock.min])
			self.kinds_seq.append('edit')
		elif kind == 'touch':
			t = self.proj.touch(op['m'], op.get('dt', 10**9))
			self.log.append(['touch', op['m'], t - self.proj.sc.clock.min])
			self.kinds_seq.append('touch')
		elif kind == 'clear':
			self.proj.sc.clear('.cache')
			self.tainted.clear()
			self.written.clear()
			self.changed_since_obs = True
			self.log.append(['clear'])
			self.kinds_seq.append('clear')
		elif kind == 'lose':
			files = [f for f in self.proj.cache_files()]
			cls = op.get('cls')
			sub = [f for f in files if file_class(f) == cls] if cls else files
			files = sub or files
			if files:
				victim = files[min(len(files) - 1, int(op.get('pick', 0.0) * len(files)))]
				self.proj.sc.remove(victim)
				self.tainted.discard(victim)
				self.written.pop(victim, None)
				self.bump('faults_fired', 'lost-file')
				self.changed_since_obs = True
				self.log.append(['lose', file_class(victim)])
			self.kinds_seq.append('lose')
		elif kind == 'truncate':
			# a cache file as an interrupted writer of an EARLIER process left it: only the first `off` bytes (optionally zero-filled up to
			# the old size, the delayed-allocation picture) -- byte-granular, independent of how the writer chunks its writes
			files = [f for f in self.proj.cache_files() if file_class(f) == op.get('cls')]
			if op.get('m'):
				files = [f for f in files if (module_of_cache_file(f) or ('',))[0] == op['m']]
			if files:
				victim = files[min(len(files) - 1, int(op.get('pick', 0.0) * len(files)))]
				full = self.proj.sc.path(victim)
				data = open(full, 'rb').read()
				mode, n = op['off']
				off = {'abs': n, 'end': len(data) - n, 'frac': int(len(data) * n / 10000)}[mode]
				off = max(0, min(len(data) - 1, off))
				with open(full, 'wb') as f:
					f.write(data[:off] + (b'\0' * (len(data) - off) if op.get('zeros') else b''))
				self.tainted.add(victim)
				self.bump('faults_fired', 'torn-write(truncated %s file%s)' % (op.get('cls'), ', zero-filled' if op.get('zeros') else ''))
				self.bump('truncation_offsets', '%s:%s' % (op.get('cls'), 'first-8' if off < 8 else 'last-8' if off >= len(data) - 8 else 'interior'))
				self.changed_since_obs = True
				# (the pickled parser's bytes depend on the interpreter's hash seed: its sizes stay out of the log)
				self.log.append(['truncate', file_class(victim), list(op['off'])] + ([off, len(data)] if op.get('cls') != 'parser' else []))
			else:
				self.bump('probes', 'truncate: no such cache file')
			self.kinds_seq.append('truncate')
		elif kind == 'sweep':
			# structure-aware truncation: every record boundary (just before / just after each newline) of one cache file, each from the same
			# snapshot. A single-document file has no such boundary and costs nothing; a record-structured one is cut where a prefix may look complete.
			files = [f for f in self.proj.cache_files() if file_class(f) == op.get('cls')]
			if op.get('m'):
				files = [f for f in files if (module_of_cache_file(f) or ('',))[0] == op['m']]
			bounds: list[int] = []
			if files:
				victim = files[min(len(files) - 1, int(op.get('pick', 0.0) * len(files)))]
				full = self.proj.sc.path(victim)
				data = open(full, 'rb').read()
				for k, b in enumerate(data):
					if b == 10:
						bounds += [x for x in (k, k + 1) if 0 < x < len(data)]
				bounds = sorted(set(bounds))
				cap = op.get('cap', 40)
				if len(bounds) > cap:
					# the tail always (the last records are the cheapest to lose unnoticed), the head, and an even spread in between
					mid = bounds[4:-12]
					bounds = sorted(set(bounds[:4] + bounds[-12:] + [mid[int(j * len(mid) / max(1, cap - 16))] for j in range(max(0, cap - 16)) if mid]))
			self.bump('probes', 'sweep: record boundaries found' if bounds else 'sweep: single-document file (no record boundary)')
			if bounds:
				snap = self.proj.sc.snapshot()
				keep = (set(self.tainted), {k: dict(v) for k, v in self.written.items()})
				for off in bounds:
					self.proj.sc.restore(snap)
					self.tainted, self.written = set(keep[0]), {k: dict(v) for k, v in keep[1].items()}
					with open(full, 'wb') as f:
						f.write(data[:off])
					self.tainted.add(victim)
					self.bump('faults_fired', 'torn-write(%s file cut at a record boundary)' % op.get('cls'))
					self.context_note = {'truncated': victim, 'offset': off, 'size': len(data)}
					self.log.append(['sweep', file_class(victim)] + ([off, len(data)] if op.get('cls') != 'parser' else []))
					self.run_once(i, {'op': 'run', 'enabled': True}, None)
				self.context_note = {}
				self.proj.sc.restore(snap)
				self.tainted, self.written = keep
			self.changed_since_obs = True
			self.kinds_seq.append('sweep')
		elif kind == 'short-read-sweep':
			self.do_short_read_sweep(i, op)
		elif kind == 'loop':
			self.do_loop(i, op)
		elif kind == 'run':
			self.do_run(i, op)
		else:
			raise ValueError(f'unknown op {kind}')

	def do_short_read_sweep(self, i: int, op: dict[str, Any]) -> None:
		"""One raw read of a module source delivers fewer bytes than asked for (legal for read(2)), cut just before each top-level statement
		(where the prefix still parses); then a fault-free run. Costs one dry run when the code under test reads its sources through buffered
		readers (which absorb short reads): there is no raw read event to cut then."""
		import os as _os
		snap = self.proj.sc.snapshot()
		keep = (set(self.tainted), {k: dict(v) for k, v in self.written.items()})
		self.run_once(i, {'op': 'run', 'enabled': True}, None)
		reads = [(n, ev) for n, ev in enumerate(self.last_trace) if ev[0] == 'read' and ev[1].endswith('.py') and (op.get('m') is None or ev[1] == pools.module_relpath(op['m']))]
		self.bump('probes', 'short-read sweep: raw source reads found' if reads else 'short-read sweep: sources are read through buffered readers (short reads absorbed)')
		done = 0
		for n, ev in reads[:op.get('files', 2)]:
			data = self.proj.sc.read(ev[1]) or b''
			cuts = [k for k in range(1, len(data)) if data[k - 1:k] == b'\n' and data[k:k + 1] not in (b'\n', b'\t', b' ', b'#', b'')]
			for off in cuts[-op.get('cap', 12):]:
				self.proj.sc.restore(snap)
				self.tainted, self.written = set(keep[0]), {k: dict(v) for k, v in keep[1].items()}
				self.context_note = {'short_read_of': ev[1], 'delivered': off, 'size': len(data)}
				self.run_once(i, {'op': 'run', 'enabled': True}, {'at': n, 'kind': 'short-read', 'k': off, 'path': ev[1]})
				self.run_once(i, {'op': 'run', 'enabled': True}, None)
				done += 1
		self.context_note = {}
		self.proj.sc.restore(snap)
		self.tainted, self.written = keep
		self.kinds_seq.append('short-read-sweep')

	def do_loop(self, i: int, op: dict[str, Any]) -> None:
		"""The steps (run / edit / touch) once as a build loop inside ONE simulated process, then -- from the same snapshot -- as the usual
		one-process-per-run history (which is judged against the cold oracle as always). judge_loop() sees both final results."""
		import os as _os
		from tranpsim import tasks
		steps = op['steps']
		snap = self.proj.sc.snapshot()
		state0 = dict(self.proj.state)
		plan: list[tuple] = []
		for st in steps:
			if st['op'] in ('edit', 'touch'):
				m = st['m']
				self.proj.set_variant(m, st['v'] if st['op'] == 'edit' else self.proj.state[m], st.get('dt', 10**9))
				rel = pools.module_relpath(m)
				plan.append(('write', rel, self.proj.sc.read(rel), _os.stat(self.proj.sc.path(rel)).st_mtime_ns))
			else:
				plan.append(('run',))
		self.proj.sc.restore(snap)
		self.proj.state = dict(state0)
		self.proj.sc.clear('out')
		rec = self.proj.run_task(tasks.loop_task(plan, self.order))
		if rec['status'] == 'died':
			from tranpsim.core import HarnessError
			raise HarnessError(f'simulated build loop died without a record: {rec}')
		if rec['status'] == 'ok':
			last = (rec['result']['runs'] or [{'status': 'ok'}])[-1]
			loop_result = (last['status'], self.proj.outputs() if last['status'] == 'ok' else {}, last.get('error'))
		else:
			loop_result = (rec['status'], {}, rec.get('error'))
		self.bump('run_outcomes', 'loop:' + loop_result[0])
		self.bump('faults_fired', 'schedule: %d runs in one process' % sum(1 for st in plan if st[0] == 'run'))
		self.log.append(['loop', loop_result[0], (loop_result[2] or {}).get('cls'), digest(loop_result[1])])
		self.proj.sc.restore(snap)
		self.proj.state = dict(state0)
		for st in steps:
			self.apply(i, st)
		self.judge_loop(i, op, loop_result, (self.last_status, self.proj.outputs() if self.last_status == 'ok' else {}))
		self.kinds_seq.append('loop')

	def judge_loop(self, i: int, op: dict[str, Any], loop_result: tuple, separate_result: tuple) -> None:
		pass

	def do_run(self, i: int, op: dict[str, Any]) -> None:
		spec = op.get('fault')
		enabled = op.get('enabled', True)
		self.states.add(self.cache_state_abstraction() + f'|enabled={enabled}')
		self.run_once(i, op, None)
		if spec:
			# the run above was the dry run (judged as an ordinary fault-free run); now place the fault inside the same run
			fault = resolve_fault(self.last_trace, spec) if self.last_status in ('ok', 'error') else None
			if fault is None:
				self.bump('probes', 'fault not placed (no eligible event)')
				return
			self.proj.sc.restore(self.pre_snapshot)
			self.tainted = set(self.pre_tainted)
			self.written = {k: dict(v) for k, v in self.pre_written.items()}
			self.run_once(i, op, fault)

	def run_once(self, i: int, op: dict[str, Any], fault: dict[str, Any] | None) -> None:
		self.run_no += 1
		enabled = op.get('enabled', True)
		force = op.get('force', True)
		if force:
			self.proj.sc.clear('out')
		self.pre_snapshot = self.proj.sc.snapshot()
		self.pre_tainted = set(self.tainted)
		self.pre_written = {k: dict(v) for k, v in self.written.items()}
		rec = self.proj.run(force=force, enabled=enabled, fault=fault, modules=self.order, observe=self.observe, versions=op.get('versions'))
		self.last_trace = rec.get('trace', [])
		self.last_status = rec['status']
		outputs = self.proj.outputs()
		ctx = {'i': i, 'op': op, 'rec': rec, 'outputs': outputs, 'fault': fault, 'enabled': enabled, 'tainted_before': set(self.pre_tainted)}
		self.account_trace(rec, fault)
		self.kinds_seq.append('run' + ('' if enabled else '-nocache') + (f"+{fault['kind']}" if fault else ''))
		self.log.append(['run', enabled, fault['kind'] if fault else None, rec['status'], (rec.get('error') or {}).get('cls'), digest(outputs), canon_trace(self.last_trace, self.hex_table)])
		if rec['status'] in ('died',):
			from tranpsim.core import HarnessError
			raise HarnessError(f'simulated process died without a record: {rec}')
		self.judge_run(ctx)
		if self.changed_since_obs:
			self.distinct.add('>'.join(self.kinds_seq))
		self.changed_since_obs = False

	def judge_run(self, ctx: dict[str, Any]) -> None:
		raise NotImplementedError
